"""C17 -- native code never touches memory outside its buffers, for any length or aliasing.

The LLSYM memory model asserted as a property: every load / store / memcpy / memset executed by the
encoded kernels lies inside a live object, nothing is used after free or freed twice, every allocation
is released by *_stop_operation / *_destroy, for ALL byte contents of every shape in the grid (lengths
0 .. a few blocks, non-multiples of the block size, in==out, overlapping in/out, odd alignment).
Kernels: raw_ecb/cbc/cfb/ofb/ctr/ocb.c, strxor.c, chacha20.c, pkcs1_decode.c, the SHA-2 template (6
instantiations), SHA1.c, MD5.c, RIPEMD160.c, keccak.c (drivers shared with C02/C03/C07/C09/C11).
"""
from vlib.env import Harness
from vlib.llsym import kern
from vlib.models import aead as M
from props import c03, c07, c11, ecc_c

ERR_NOT_ENOUGH_DATA = 3


def _mode_start(env, K, mode, cipher, bl, sh):
    slot = K.ptr_slot()
    iv = None
    if mode == 'ecb':
        r = K.call('ECB_start_operation', cipher, slot)
    elif mode in ('cbc', 'ofb'):
        iv = env.bytes('iv', sh.get('ivlen', bl))
        r = K.call(mode.upper() + '_start_operation', cipher, K.buf(iv, False, 'iv'), len(iv), slot)
    elif mode == 'cfb':
        iv = env.bytes('iv', sh.get('ivlen', bl))
        r = K.call('CFB_start_operation', cipher, K.buf(iv, False, 'iv'), len(iv), sh['seg'], slot)
    elif mode == 'ocb':
        iv = env.bytes('offset0', sh.get('ivlen', 16))
        r = K.call('OCB_start_operation', cipher, K.buf(iv, False, 'offset0'), len(iv), slot)
    else:
        raise KeyError(mode)
    return slot, iv, r


def _ref_mode(P, mode, cname, key, iv, data, dec, sh):
    if mode == 'ecb':
        return M.ecb_dec(P, cname, key, data) if dec else M.ecb_enc(P, cname, key, data)
    if mode == 'cbc':
        return M.cbc_dec(P, cname, key, iv, data) if dec else M.cbc_enc(P, cname, key, iv, data)
    if mode == 'cfb':
        return M.cfb_dec(P, cname, key, iv, data, sh['seg']) if dec else M.cfb_enc(P, cname, key, iv, data, sh['seg'])
    if mode == 'ofb':
        return M.ofb(P, cname, key, iv, data)
    return None


def run_raw_mode(env, sh):
    """start / (en|de)crypt with every alias configuration / stop, memory-checked; for non-aliased and
    exactly-in-place calls the output must equal the SP 800-38A mode equations"""
    P = env.P
    mode, bl, n, dec = sh['mode'], sh['bl'], sh['n'], sh.get('dec', False)
    cfile = 'raw_%s.c' % mode
    K = kern.kernel(env, cfile)
    cname = 'AES' if bl == 16 else 'DES'
    key = env.bytes('key', 16 if bl == 16 else 8)
    cipher = K.block_cipher(cname, key, bl)
    slot, iv, r = _mode_start(env, K, mode, cipher, bl, sh)
    legal_start = sh.get('ivlen', bl) == bl and (mode != 'cfb' or 0 < sh['seg'] <= bl) and (mode != 'ocb' or bl == 16)
    if not legal_start:
        env.check(r != 0, 'illegal IV / segment / block size refused')
        K.check_memory_safe()
        return
    env.check(r == 0, 'start succeeds')
    st = K.deref(slot)
    data = env.bytes('data', n)
    alias = sh.get('alias', 'none')
    if alias == 'none':
        p_in = K.buf(data, False, 'in', misalign=sh.get('misalign', 0))
        p_out = K.out(n, 'out', misalign=sh.get('misalign_out', 0))
    elif alias == 'same':
        p_in = K.buf(data, True, 'inout')
        p_out = p_in
    else:
        k = int(alias)
        big = K.buf(env.P.concat(data, bytes(abs(k))) if k > 0 else env.P.concat(bytes(abs(k)), data), True, 'inout')
        if k > 0:
            p_in, p_out = big, K.at(big, k)
        else:
            p_in, p_out = K.at(big, -k), big
    fname = mode.upper() + ('_decrypt' if dec else '_encrypt')
    rr = K.call(fname, st, p_in, p_out, n)
    K.check_memory_safe()
    needs_multiple = mode in ('ecb', 'cbc')
    if needs_multiple and n % bl:
        env.check(rr == ERR_NOT_ENOUGH_DATA, 'a length that is not a multiple of the block size is reported, not processed out of bounds')
    elif mode != 'ocb':
        env.check(rr == 0, 'call succeeds')
        if alias in ('none', 'same'):
            env.check(K.read(p_out, n) == _ref_mode(P, mode, cname, key, iv, data, dec, sh),
                      'output == SP 800-38A %s (also when the output buffer is the input buffer)' % mode.upper())
    if alias == 'none':
        K.check_frame(('out', 'pResult'), 'only the designated output is written (inputs, key, IV and globals untouched)')
    r2 = K.call(mode.upper() + '_stop_operation', st)
    env.check(r2 == 0, 'stop succeeds')
    K.check_memory_safe()
    env.check(K.live_heap() == [], 'every allocation is released')


def run_raw_mode_seg(env, sh):
    """the C streaming state across calls: feed(S1); feed(S2) == mode(S1 || S2), every cut"""
    P = env.P
    mode, bl, dec = sh['mode'], sh['bl'], sh.get('dec', False)
    K = kern.kernel(env, 'raw_%s.c' % mode)
    cname = 'AES' if bl == 16 else 'DES'
    key = env.bytes('key', 16 if bl == 16 else 8)
    cipher = K.block_cipher(cname, key, bl)
    slot, iv, r = _mode_start(env, K, mode, cipher, bl, sh)
    env.check(r == 0, 'start succeeds')
    st = K.deref(slot)
    parts = [env.bytes('s%d' % i, n) for i, n in enumerate(sh['segs'])]
    outs = []
    fname = mode.upper() + ('_decrypt' if dec else '_encrypt')
    for i, part in enumerate(parts):
        po = K.out(len(part), 'out%d' % i)
        env.check(K.call(fname, st, K.buf(part, False, 'in%d' % i), po, len(part)) == 0, 'call %d succeeds' % i)
        outs.append(K.read(po, len(part)))
    K.check_memory_safe()
    whole = P.concat(*parts) if parts else P.const(b"")
    got = P.concat(*outs) if outs else P.const(b"")
    env.check(got == _ref_mode(P, mode, cname, key, iv, whole, dec, sh), 'concatenated outputs == mode applied to the concatenated input')
    K.call(mode.upper() + '_stop_operation', st)
    env.check(K.live_heap() == [], 'every allocation is released')


def run_strxor(env, sh):
    K = kern.kernel(env, 'strxor.c')
    n = sh['n']
    a = env.bytes('a', n)
    b = env.bytes('b', n)
    alias = sh.get('alias', 'none')
    pa = K.buf(a, alias == 'a', 'a', misalign=sh.get('misalign', 0))
    pb = K.buf(b, alias == 'b', 'b')
    po = pa if alias == 'a' else (pb if alias == 'b' else K.out(n, 'out'))
    K.call('strxor', pa, pb, po, n)
    K.check_memory_safe()
    env.check(K.read(po, n) == env.P.xor(a, b) if n else True, 'strxor == byte-wise xor')
    c = env.int('c', 8)
    po2 = K.out(n, 'out2')
    K.call('strxor_c', K.buf(a, False, 'a2'), c, po2, n)
    K.check_memory_safe()
    if n:
        env.check(K.read(po2, n) == env.P.xor(a, env.P.concat(*[env.P.i2b(c, 1)] * n)), 'strxor_c == xor with the constant')


def run_chacha(env, sh):
    """chacha20.c stream state machine: init / encrypt / seek with all memory accesses checked"""
    K = kern.kernel(env, 'chacha20.c')
    key = env.bytes('key', sh.get('klen', 32))
    nonce = env.bytes('nonce', sh['nlen'])
    slot = K.ptr_slot()
    r = K.call('chacha20_init', slot, K.buf(key, False, 'key'), len(key), K.buf(nonce, False, 'nonce'), len(nonce))
    legal = len(key) == 32 and sh['nlen'] in (8, 12, 16)
    if not legal:
        env.check(r != 0, 'illegal key / nonce size refused')
        K.check_memory_safe()
        env.check(K.live_heap() == [], 'nothing leaked on refusal')
        return
    env.check(r == 0, 'init succeeds')
    st = K.deref(slot)
    for i, n in enumerate(sh['calls']):
        if n < 0:
            rr = K.call('chacha20_seek', st, 0, -n, sh.get('off', 1))
        else:
            d = env.bytes('d%d' % i, n)
            if sh.get('alias'):
                p = K.buf(d, True, 'io%d' % i)
                rr = K.call('chacha20_encrypt', st, p, p, n)
            else:
                rr = K.call('chacha20_encrypt', st, K.buf(d, False, 'in%d' % i), K.out(n, 'out%d' % i), n)
        K.check_memory_safe()
        if sh['nlen'] == 16:
            env.check(rr != 0, 'a 16-byte-nonce state (HChaCha20) cannot produce a stream')
    K.call('chacha20_destroy', st)
    K.check_memory_safe()
    env.check(K.live_heap() == [], 'destroy releases the state')


# ---- Python wrappers: the guards that establish the C preconditions (lengths handed to the native code)

def run_guards_py(env, sh):
    """every (input, second input, output) length combination: a mismatch is refused with ValueError / TypeError
    BEFORE the native call; the native contract model reports any length that overruns a passed buffer"""
    kind = sh['kind']
    P = env.P
    la, lb, lo = sh['la'], sh.get('lb'), sh.get('lo')
    a = env.bytes('a', la)
    out = None if lo is None else (env.bytearray('out', lo) if sh.get('writable', True) else env.bytes('outb', lo))
    if env.sym:
        from vlib.pysym import natives as _n
        breach = _n.ContractBreach
    else:
        breach = ()
    try:
        if kind == 'strxor':
            from Crypto.Util.strxor import strxor
            b = env.bytes('b', lb)
            r = strxor(a, b, output=out) if lo is not None else strxor(a, b)
            exp = P.xor(a, b) if la == lb else None
        elif kind == 'strxor_c':
            from Crypto.Util.strxor import strxor_c
            r = strxor_c(a, sh['c'], output=out) if lo is not None else strxor_c(a, sh['c'])
            exp = P.xor(a, bytes([sh['c'] & 0xFF]) * la) if 0 <= sh['c'] < 256 else None
        else:
            from Crypto.Cipher import AES, ChaCha20
            key = env.bytes('key', 32 if kind == 'chacha20' else 16)
            if kind == 'chacha20':
                ci = ChaCha20.new(key=key, nonce=env.bytes('nonce', 12))
            elif kind == 'ecb':
                ci = AES.new(key, AES.MODE_ECB)
            elif kind == 'ctr':
                ci = AES.new(key, AES.MODE_CTR, nonce=env.bytes('nonce', 8))
            else:
                ci = AES.new(key, dict(cbc=AES.MODE_CBC, cfb=AES.MODE_CFB, ofb=AES.MODE_OFB)[kind], iv=env.bytes('iv', 16))
            fn = ci.decrypt if sh.get('dec') else ci.encrypt
            r = fn(a, output=out) if lo is not None else fn(a)
            exp = None
        raised = None
    except ValueError:
        raised = 'ValueError'
    except TypeError:
        raised = 'TypeError'
    except breach as e:
        env.check(False, 'the wrapper hands the native code only lengths within the buffers it passes [%s]' % e)
        return
    block = 16 if kind in ('ecb', 'cbc') else 1
    if kind == 'strxor' and la != lb:
        want = 'ValueError'
    elif kind == 'strxor_c' and not 0 <= sh['c'] < 256:
        want = 'ValueError'
    elif lo is not None and not sh.get('writable', True):
        want = 'TypeError'
    elif lo is not None and lo != la:
        want = 'ValueError'
    elif la % block:
        want = 'ValueError'
    else:
        want = None
    env.check(raised == want, 'lengths (%s, %s, out=%s) are %s' % (la, lb, lo, 'refused with ' + want if want else 'accepted'))
    if raised is None and want is None and exp is not None:
        got = out if lo is not None else r
        env.check(env.tobytes(got) == exp, 'result == xor of the operands')
        if lo is not None:
            env.check(r is None, 'with output= nothing is returned')


OWN = dict(raw_mode=Harness('raw_mode', run_raw_mode), raw_mode_seg=Harness('raw_mode_seg', run_raw_mode_seg), strxor=Harness('strxor', run_strxor), chacha=Harness('chacha', run_chacha),
           guards_py=Harness('guards_py', run_guards_py))
HARNESSES = dict(OWN)
HARNESSES.update(c03.HARNESSES)
HARNESSES.update({k: v for k, v in c07.HARNESSES.items() if k in ('pkcs1_decode', 'oaep_decode')})
HARNESSES.update(c11.HARNESSES)
HARNESSES['ec_scalar_mem'] = ecc_c.HARNESS


def own_shapes(tier):
    th = tier == 'thorough'
    jobs = []
    L = (0, 1, 2, 17) if not th else (0, 1, 2, 3, 16, 17)
    for la in L:
        for lb in L:
            for lo in (None,) + L:
                if la == lb or lo is None or lo in (la, lb):
                    jobs.append(('guards_py', dict(kind='strxor', la=la, lb=lb, lo=lo)))
        for lo in (None,) + L:
            jobs.append(('guards_py', dict(kind='strxor_c', la=la, lo=lo, c=0x5A)))
        jobs.append(('guards_py', dict(kind='strxor', la=la, lb=la, lo=la, writable=False)))
    for c in (-1, 256, 255, 0):
        jobs.append(('guards_py', dict(kind='strxor_c', la=2, lo=None, c=c)))
    for kind in ('ecb', 'cbc', 'cfb', 'ofb', 'ctr', 'chacha20'):
        for la in (16, 32, 17, 0):
            for lo in (None, la, la - 1, la + 1, la + 16, 0):
                if lo is not None and lo < 0:
                    continue
                for dec in (False, True):
                    jobs.append(('guards_py', dict(kind=kind, la=la, lo=lo, dec=dec)))
            jobs.append(('guards_py', dict(kind=kind, la=la, lo=la, writable=False)))
    for mode in ('ecb', 'cbc', 'cfb', 'ofb'):
        for bl in (16, 8):
            lens = [0, 1, bl - 1, bl, bl + 1, 2 * bl, 2 * bl + 1] if th else [0, 1, bl, bl + 1, 2 * bl]
            segs = ([1, bl // 2, bl - 1, bl] if th else [1, bl]) if mode == 'cfb' else [None]
            for seg in segs:
                for n in lens:
                    for dec in (False, True):
                        base = dict(mode=mode, bl=bl, n=n, dec=dec)
                        if seg is not None:
                            base['seg'] = seg
                        jobs.append(('raw_mode', dict(base)))
                        if n:
                            jobs.append(('raw_mode', dict(base, alias='same')))
                        if n >= bl and (th or n == 2 * bl):
                            for k in ((1, bl, -1, -bl) if th else (1, -1)):
                                jobs.append(('raw_mode', dict(base, alias=str(k))))
                jobs.append(('raw_mode', dict(mode=mode, bl=bl, n=bl, dec=False, misalign=1, misalign_out=3, **({'seg': seg} if seg else {}))))
            if mode != 'ecb':
                jobs.append(('raw_mode', dict(mode=mode, bl=bl, n=bl, ivlen=bl - 1, **({'seg': 1} if mode == 'cfb' else {}))))
                jobs.append(('raw_mode', dict(mode=mode, bl=bl, n=bl, ivlen=bl + 1, **({'seg': 1} if mode == 'cfb' else {}))))
            if mode == 'cfb':
                jobs.append(('raw_mode', dict(mode=mode, bl=bl, n=bl, seg=0)))
                jobs.append(('raw_mode', dict(mode=mode, bl=bl, n=bl, seg=bl + 1)))
    for mode in ('cfb', 'ofb', 'cbc'):
        for bl in (16, 8):
            total = 2 * bl + 1 if mode != 'cbc' else 3 * bl
            cuts = range(0, total + 1) if th else (0, 1, bl - 1, bl, bl + 1, 2 * bl)
            for seg in (([1, bl // 2, bl] if th else [bl // 2]) if mode == 'cfb' else [None]):
                for cut in cuts:
                    if mode == 'cbc' and cut % bl:
                        continue
                    for dec in (False, True):
                        sh = dict(mode=mode, bl=bl, segs=[cut, total - cut], dec=dec)
                        if seg:
                            sh['seg'] = seg
                        jobs.append(('raw_mode_seg', sh))
                sh = dict(mode=mode, bl=bl, segs=[bl, 0, bl] if mode == 'cbc' else [1, 0, bl, 3], dec=False)
                if seg:
                    sh['seg'] = seg
                jobs.append(('raw_mode_seg', sh))
    for n in ((0, 1, 15, 16, 17, 32, 33, 48) if th else (0, 1, 16, 17, 33)):
        for dec in (False, True):
            jobs.append(('raw_mode', dict(mode='ocb', bl=16, n=n, dec=dec)))
            if n:
                jobs.append(('raw_mode', dict(mode='ocb', bl=16, n=n, dec=dec, alias='same')))
    jobs.append(('raw_mode', dict(mode='ocb', bl=8, n=8)))
    jobs.append(('raw_mode', dict(mode='ocb', bl=16, n=16, ivlen=15)))
    for n in (0, 1, 7, 16, 33):
        for alias in ('none', 'a', 'b'):
            jobs.append(('strxor', dict(n=n, alias=alias)))
    jobs.append(('strxor', dict(n=9, misalign=3)))
    for nlen in (8, 12):
        jobs.append(('chacha', dict(nlen=nlen, calls=[0, 1, 63, 1, 64, 65] if th else [1, 63, 65])))
        jobs.append(('chacha', dict(nlen=nlen, calls=[3, -5, 70], alias=True)))
        jobs.append(('chacha', dict(nlen=nlen, calls=[-1], off=64)))
    for nlen, klen in ((16, 32), (7, 32), (12, 31), (24, 32)):
        jobs.append(('chacha', dict(nlen=nlen, klen=klen, calls=[1])))
    return jobs


def shapes(tier):
    jobs = own_shapes(tier)
    jobs += c03.shapes(tier)
    jobs += [j for j in c07.shapes(tier) if j[0] in ('pkcs1_decode', 'oaep_decode')]
    jobs += c11.shapes(tier)
    jobs += ecc_c.ec_scalar_shapes(tier)
    return jobs


BOUNDS = dict(kernels=["raw_ecb.c", "raw_cbc.c", "raw_cfb.c", "raw_ofb.c", "raw_ctr.c", "raw_ocb.c", "strxor.c", "chacha20.c",
                       "pkcs1_decode.c", "hash_SHA2_template.c (SHA224/256/384/512, 512/224, 512/256)", "SHA1.c", "MD5.c",
                       "RIPEMD160.c", "keccak.c", "ec_ws.c + mont.c + p256/p384/p521 tables (ec_ws_new_context, new_point, scalar on the generator and on another point, get_xy, free: concrete operands, scalars of 0..80 bytes)"],
              lengths="0 .. 2 blocks+1 (CTR 9 blocks+1, 1-byte counters 4097 bytes), non-multiples of the block size, in==out, "
              "out = in +-1 / +-block, buffers at odd fake addresses",
              outside=["AES.c/AESNI.c/DES*.c/blowfish*.c/CAST.c/ARC2.c/ARC4.c cores", "ghash_clmul.c, ghash_portable.c", "poly1305.c, blake2.c, Salsa20.c, scrypt.c (not yet)",
                       "ec_ws*.c/ed*.c/curve*.c/mont*.c/modexp.c/bignum.c", "allocator failure paths", "lengths above the grid",
                       "the real _raw_api pointer conversions"])
ASSUMPTIONS = ["malloc/calloc/posix_memalign succeed", "cipher->encrypt/decrypt stubs read and write exactly `len` bytes",
               "stubbed compression functions touch only the state object"]
EXPLANATION = ("bounded symbolic execution of the real C from LLVM IR under a byte-precise memory model: every access is checked "
               "against object bounds and liveness for all byte contents of each shape; any violation is a feasible path whose "
               "solver model is replayed on the gcc-built C with guard bytes around every buffer")
