"""C05 -- every key from generate / construct / import satisfies its mathematical invariants (partial).

PYSYM on the real PublicKey code; EC group abstract (vlib/pysym/ecnat.py, faithful to the range / reduction
behaviour of each C new_point), integers symbolic:
  ecc_coord_range : construct(curve, point_x = Px + i*p, point_y = Py + j*p) for a symbolic valid point P and
                    i, j in 0..3: accepted exactly for i = j = 0 (out-of-range coordinates are refused); 5 curves
  ecc_d_range     : construct(curve, d) accepted exactly for 1 <= d < order; the public point is d*G
  ecc_match       : construct(curve, d, point_x, point_y): accepted exactly when the point is d*G
  clamp           : seeds of Ed25519 / Ed448 / Curve25519 / Curve448: the private scalar is the RFC 8032 / RFC 7748
                    clamping of (the hash of) the seed, bit for bit; wrong seed lengths refused
  x_deny          : construct(curve='Curve25519'/'Curve448', point_x = x) for EVERY x of the byte length: refused
                    exactly for the RFC 7748 low-order values (also in non-reduced form)
  rsa_construct   : RSA.construct((n,e,d,p,q,u)) with consistency checking on ALL component tuples of reduced
                    width: accepted exactly when n = p*q with prime p, q, 1<e<n, gcd(e,n)=1, e*d = 1 mod
                    lcm(p-1,q-1), 1<d<n, gcd(d,n)=1, 1<u<q, p*u = 1 mod q  (primality by table at this width)
  dsa_construct / elgamal_construct : the same for DSA (p, q, g, y, x) and ElGamal (p, g, y, x) at reduced width
NOT decided: key generation loops on real sizes (FIPS 186-4 margins), probabilistic primality on real sizes,
factor recovery from (n, e, d), on-curve tests of the C code (abstract), imports (C13 decides their
totality; the imported components go through the same constructors).
"""
import operator

from vlib.env import Harness
from props import ecc_c

NB = {'P-192': 24, 'P-224': 28, 'P-256': 32, 'P-384': 48, 'P-521': 66, 'Curve25519': 32, 'Curve448': 56, 'Ed25519': 32, 'Ed448': 57}
CB = {'P-192': 24, 'P-224': 28, 'P-256': 32, 'P-384': 48, 'P-521': 66, 'Curve25519': 32, 'Curve448': 56, 'Ed25519': 32, 'Ed448': 56}   # coordinate bytes
MONT = ('Curve25519', 'Curve448')


def _iv(x):
    v = getattr(x, '_value', None)
    return v if v is not None else int(x)


def _sym_key(env, curve, name):
    from props.c06 import _sym_key as k
    return k(env, curve, name)


def run_ecc_coord_range(env, sh):
    from Crypto.PublicKey import ECC
    curve = sh['curve']
    p = int(ECC._curves[curve].p)
    base = _sym_key(env, curve, 'k').pointQ
    px, py = _iv(base.x), _iv(base.y)
    i, j = env.int('i', 2), env.int('j', 2)
    if not env.sym:
        # concrete replay / validation: the abstract group's coordinates are not the real ones, so whether
        # P + i*p still fits the byte length differs; offer every (i, j) for the real point of this scalar
        for ii in range(4):
            for jj in range(4):
                try:
                    ECC.construct(curve=curve, point_x=px + ii * p, point_y=py + jj * p)
                    okc = True
                except ValueError:
                    okc = False
                env.check(okc == (ii == 0 and jj == 0), 'coordinates are accepted exactly when they are in range [0, p) (P + %d*p, P + %d*p)' % (ii, jj))
    x, y = px + i * p, py + j * p
    try:
        key = ECC.construct(curve=curve, point_x=x, point_y=y)
        ok = True
    except ValueError:
        ok = False
    env.check(env.eqv(ok, env.And(i == 0, j == 0)), 'coordinates are accepted exactly when they are in range [0, p) (P + multiples of p refused)')
    if ok:
        q = key.pointQ
        env.check(env.And(_iv(q.x) == px, _iv(q.y) == py), 'the key holds the point that was given')
        env.check(env.And(_iv(q.x) < p, _iv(q.y) < p), 'public coordinates of the key are in range')
        env.check(not key.has_private(), 'a key built from a point only is public')


def run_ecc_d_range(env, sh):
    from Crypto.PublicKey import ECC
    curve = sh['curve']
    order = int(ECC._curves[curve].order)
    d = env.int('d', sh['bits'], signed=sh.get('signed', False))
    if 'base' in sh:
        d = d + sh['base']
    try:
        key = ECC.construct(curve=curve, d=d)
        ok = True
    except ValueError:
        ok = False
    env.check(env.eqv(ok, env.And(d >= 1, d < order)), 'private scalar accepted exactly when 1 <= d < order')
    if ok:
        env.check(_iv(key.d) == d, 'the key holds the scalar that was given')
        if sh.get('pub'):
            G = ECC._curves[curve].G
            env.check(key.pointQ == G * d, 'public point == d * G')


def run_ecc_match(env, sh):
    from Crypto.PublicKey import ECC
    curve = sh['curve']
    kd = _sym_key(env, curve, 'd')
    d = _iv(kd.d)
    if sh.get('mirror'):
        # the mirrored point (x, -y) of d*G: same x coordinate, different point (y = 0 does not occur on these curves)
        p = int(ECC._curves[curve].p)
        R0 = kd.pointQ
        qx, qy = _iv(R0.x), p - _iv(R0.y)
        try:
            ECC.construct(curve=curve, d=d, point_x=qx, point_y=qy)
            ok = True
        except ValueError:
            ok = False
        env.check(not ok, 'a private scalar together with the mirrored public point (x, -y) is refused')
        return
    ko = _sym_key(env, curve, 'o')
    Q = ko.pointQ
    qx, qy = _iv(Q.x), _iv(Q.y)
    try:
        key = ECC.construct(curve=curve, d=d, point_x=qx, point_y=qy)
        ok = True
    except ValueError:
        ok = False
    R = kd.pointQ
    # two distinct points of the real curve with the same x are mirror images; the abstract group does not know that, and
    # the mirror case is the separate 'mirror' shape: exclude 'same x, different y' here (stated)
    env.assume(env.Or(env.Not(_iv(R.x) == qx), _iv(R.y) == qy))
    env.check(env.eqv(ok, env.And(_iv(R.x) == qx, _iv(R.y) == qy)), 'private and public parts are accepted exactly when the point is d * G')


def _clamp(env, b, curve):
    """RFC 8032 s5.1.5 / s5.2.5, RFC 7748 s5 on the little-endian byte string b -> integer"""
    P = env.P
    v = P.b2i(b, 'little')
    if curve in ('Ed25519', 'Curve25519'):
        v = v & ~7
        v = v & ((1 << 255) - 1)
        v = v | (1 << 254)
    elif curve == 'Curve448':
        v = v & ~3
        v = v | (1 << 447)
    else:       # Ed448: 57 bytes; the last byte is cleared, the top bit of the second last is set
        v = v & ~3
        v = v & ((1 << 448) - 1)
        v = v | (1 << 447)
    return v


def run_clamp(env, sh):
    from Crypto.PublicKey import ECC
    curve, n = sh['curve'], sh['n']
    seed = env.bytes('seed', n)
    try:
        key = ECC.construct(curve=curve, seed=seed)
    except ValueError:
        # abstract group: the uninterpreted public point of a Montgomery key may coincide with a listed
        # low-order value; impossible for clamped scalars in the real group -- path outside the model
        env.check(n != NB[curve] or (env.sym and curve in MONT), 'a seed of the right length is accepted')
        return
    env.check(n == NB[curve], 'a seed of the wrong length is refused')
    P = env.P
    if curve == 'Ed25519':
        h = P.hash('SHA512', seed, 64)
        exp = _clamp(env, h[:32], curve)
    elif curve == 'Ed448':
        h = P.shake(256, seed, 114)
        exp = _clamp(env, h[:57], curve)
    else:
        exp = _clamp(env, seed, curve)
    env.check(_iv(key.d) == exp, 'private scalar == RFC clamping of the %sseed' % ('hash of the ' if curve.startswith('Ed') else ''))
    env.check(key.has_private(), 'key is private')
    if sh.get('pub'):
        G = ECC._curves[curve].G
        env.check(key.pointQ == G * exp, 'public point == clamped scalar * G')


X25519_LOW = (0, 1, 325606250916557431795983626356110631294008115727848805560023387167927233504,
              39382357235489614581723060781553021112529911719440698176882885853963445705823, 2 ** 255 - 19 - 1)


def run_x_deny(env, sh):
    from Crypto.PublicKey import ECC
    curve = sh['curve']
    n = NB[curve]
    p = int(ECC._curves[curve].p)
    x = env.int('x', sh.get('bits', 8 * n))
    if 'base' in sh:
        x = x + sh['base']
    try:
        key = ECC.construct(curve=curve, point_x=x)
        ok = True
    except ValueError:
        ok = False
    if curve == 'Curve25519':
        # RFC 7748: non-canonical values are accepted and denote x mod p; the low-order points are refused in every form
        r = env.ite(x >= 2 * p, x - 2 * p, env.ite(x >= p, x - p, x))
        low = env.Or(*[r == v for v in X25519_LOW])
        env.check(env.eqv(ok, env.And(x < (1 << (8 * n)), env.Not(low))), 'accepted exactly when x fits 32 bytes and x mod p is not a low-order value')
        if ok:
            env.check(_iv(key.pointQ.x) == r, 'the key holds x mod p')
    else:
        # curve448_new_point() reduces modulo p as well (mont_new_from_bytes); 2^448 < 2p
        r = env.ite(x >= p, x - p, x)
        low = env.Or(r == 0, r == 1, r == p - 1)
        env.check(env.eqv(ok, env.And(x < (1 << (8 * n)), env.Not(low))), 'accepted exactly when x fits 56 bytes and x mod p is not a low-order value')
        if ok:
            env.check(_iv(key.pointQ.x) == r, 'the key holds x mod p')


# ---------------------------------------------------------------- reduced-width RSA / DSA / ElGamal

def _primes_below(n):
    return [k for k in range(2, n) if all(k % d for d in range(2, int(k ** 0.5) + 1))]


def _is_prime(env, v, w):
    return env.Or(*[v == c for c in _primes_below(1 << w)])


def _coprime(env, a, b, w):
    """gcd(a, b) == 1 for 0 < a, b < 2^w: no prime below 2^w divides both"""
    return env.And(*[env.Not(env.And(a % r == 0, b % r == 0)) for r in _primes_below(1 << w)])


def powmod_ref(env, b, e, m, ebits):
    """reference b^e mod m by square-and-multiply over ebits exponent bits; intermediate results kept at the width of m"""
    def modm(x):
        t = x % m
        if env.sym:
            import z3
            from vlib.pysym import core
            if isinstance(t, core.SymInt) and isinstance(m, (int, core.SymInt)):
                mw = m.bit_length() if isinstance(m, int) else m.w
                if t.w > mw + 1:
                    t = core.SymInt.make(z3.Extract(mw, 0, t.e), mw + 1, nn=True)
        return t
    r = 1 % m
    acc = modm(b)
    for i in range(ebits):
        r = env.ite((e >> i) & 1 == 1, modm(r * acc), r)
        acc = modm(acc * acc)
    return r


def _small_int_shims(env):
    """reduced-width integer support for the symbolic run:
    * IntegerNative.__bool__ returns `self._value != 0`; Python insists on a real bool, so the proxy is
      converted (forking) -- same semantics;
    * pow(b, e, m) on symbolic integers: exact square-and-multiply over the exponent's bit width"""
    if not env.sym:
        return lambda: None
    from Crypto.Math._IntegerNative import IntegerNative
    from vlib.pysym import natives, core
    old_bool = IntegerNative.__bool__
    IntegerNative.__bool__ = lambda self: bool(self._value != 0)
    IntegerNative.__nonzero__ = IntegerNative.__bool__
    old_int = IntegerNative.__int__
    # implicit C-level conversions (e.g. '%d' % Integer in an error message) need a real int: solver-enumerated
    IntegerNative.__int__ = lambda self: operator.index(self._value) if isinstance(self._value, core.SymInt) else old_int(self)

    def hook(b, e, m):
        b, e, m = [getattr(t, '_value', t) for t in (b, e, m)]
        if m is None:
            raise core.Inconclusive("symbolic pow without modulus")
        if isinstance(e, int) and e < 0:
            # builtin pow(b, -k, m): modular inverse (ValueError when b is not invertible), then the k-th power
            mw = m.bit_length() if isinstance(m, int) else m.w
            if mw > 8:
                raise core.Inconclusive("modular inverse by table only up to 8 bits")
            bm = b % m
            exists = env.Or(*[env.And(x < m, (bm * x) % m == 1 % m) for x in range(1 << mw)])
            if not exists:
                raise ValueError("base is not invertible for the given modulus")
            inv = 0
            for x in range((1 << mw) - 1, -1, -1):
                inv = env.ite(env.And(x < m, (bm * x) % m == 1 % m), x, inv)
            return hook(inv, -e, m)
        if isinstance(e, int):
            ebits = max(e.bit_length(), 1)
        else:
            ebits = e.w
        import z3

        def modm(x):
            """x mod m, kept at the width of m (0 <= result < m: the width tracker would otherwise double per squaring)"""
            t = x % m
            if isinstance(t, core.SymInt) and isinstance(m, (int, core.SymInt)):
                mw = m.bit_length() if isinstance(m, int) else m.w
                if t.w > mw + 1:
                    t = core.SymInt.make(z3.Extract(mw, 0, t.e), mw + 1, nn=True)
            return t
        r = 1
        acc = modm(b)
        for i in range(ebits):
            r = env.ite((e >> i) & 1 == 1, modm(r * acc), r)
            acc = modm(acc * acc)
        return modm(r)
    natives.POW_HOOK = hook

    def undo():
        IntegerNative.__bool__ = old_bool
        IntegerNative.__nonzero__ = old_bool
        IntegerNative.__int__ = old_int
        natives.POW_HOOK = None
    return undo


class _TablePrimality(object):
    """Crypto.Math.Primality.test_probable_prime replaced by the exact answer for values below 2^w
    (Miller-Rabin with random bases on symbolic integers is out of reach; the property at this width
    concerns the consistency conditions, not the primality test: stated)"""

    def __init__(self, env, w):
        self.env, self.w = env, w

    def __call__(self, candidate, randfunc=None):
        from Crypto.Math import Primality
        v = _iv(candidate)
        if isinstance(v, int):
            return Primality.PROBABLY_PRIME if v in _primes_below(max(v + 1, 3)) and v > 1 else Primality.COMPOSITE
        return Primality.PROBABLY_PRIME if _is_prime(self.env, v, self.w) else Primality.COMPOSITE


def run_rsa_construct(env, sh):
    from Crypto.PublicKey import RSA
    w = sh['w']                 # width of p and q
    W = 2 * w
    p, q = env.int('p', w), env.int('q', w)
    n = env.int('n', W)
    e, d = env.int('e', W), env.int('d', W)
    u = env.int('u', w)
    # the interesting region: near-consistent tuples.  n is tied to p*q or free, per shape
    if sh.get('tie_n', True):
        env.assume(n == p * q)
    env.assume(env.And(p >= 3, q >= 3, n >= 3))
    real = RSA.test_probable_prime
    RSA.test_probable_prime = _TablePrimality(env, w)
    undo = _small_int_shims(env)
    try:
        try:
            key = RSA.construct((n, e, d, p, q, u), consistency_check=True)
            ok = True
        except ValueError:
            ok = False
    finally:
        RSA.test_probable_prime = real
        undo()
    lam_ok = None
    # e*d == 1 mod lcm(p-1, q-1)  <=>  (p-1) | (e*d - 1) and (q-1) | (e*d - 1)
    ed = e * d
    spec = env.And(n == p * q, _is_prime(env, p, w), _is_prime(env, q, w), e > 1, e < n, _coprime(env, n, e, W), n % 2 == 1,
                   d > 1, d < n, _coprime(env, n, d, W), (ed - 1) % (p - 1) == 0, (ed - 1) % (q - 1) == 0,
                   u > 1, u < q, (p * u) % q == 1)
    env.check(env.eqv(ok, spec), 'RSA.construct accepts exactly the consistent tuples (n = p*q, primes, e*d = 1 mod lcm, u = p^-1 mod q, ranges)')


def run_rsa_public(env, sh):
    """RSA.construct((n, e)) with consistency checking, every (n, e) of the width: accepted exactly for odd n, 1 < e < n, gcd(e, n) = 1"""
    from Crypto.PublicKey import RSA
    W = sh['W']
    n, e = env.int('n', W), env.int('e', W)
    undo = _small_int_shims(env)
    try:
        try:
            key = RSA.construct((n, e), consistency_check=True)
            ok = True
        except ValueError:
            ok = False
    finally:
        undo()
    env.check(env.eqv(ok, env.And(n % 2 == 1, e > 1, e < n, _coprime(env, n, e, W))), 'RSA.construct((n, e)) accepts exactly odd n with 1 < e < n and gcd(e, n) = 1')
    if ok:
        env.check(not key.has_private() and _iv(key.n) == n and _iv(key.e) == e, 'the public key holds (n, e)')


def run_dsa_construct(env, sh):
    from Crypto.PublicKey import DSA
    w = sh['w']
    p, q, g = env.int('p', w), env.int('q', w - 2), env.int('g', w)
    y, x = env.int('y', w), env.int('x', w - 2)
    priv = sh.get('priv', True)
    real = DSA.test_probable_prime
    DSA.test_probable_prime = _TablePrimality(env, w)
    env.assume(env.And(p >= 3, q >= 2))
    undo = _small_int_shims(env)
    try:
        try:
            key = DSA.construct((y, g, p, q, x) if priv else (y, g, p, q), consistency_check=True)
            ok = True
        except ValueError:
            ok = False
    finally:
        DSA.test_probable_prime = real
        undo()
    # g^q mod p == 1, y == g^x mod p at this width: by repeated squaring on symbolic integers
    def powmod(b, e, m, bits):
        r = 1
        acc = b % m
        for i in range(bits):
            r = env.ite((e >> i) & 1 == 1, (r * acc) % m, r)
            acc = (acc * acc) % m
        return r
    spec = env.And(_is_prime(env, p, w), _is_prime(env, q, w), (p - 1) % q == 0, g > 1, g < p, powmod(g, q, p, w - 2) == 1,
                   y > 0, y < p)
    if priv:
        spec = env.And(spec, x > 0, x < q, powmod(g, x, p, w - 2) == y)
    env.check(env.eqv(ok, spec), 'DSA.construct accepts exactly the consistent domain / key tuples')


def run_elgamal_construct(env, sh):
    from Crypto.PublicKey import ElGamal
    w = sh['w']
    p, g, y, x = env.int('p', w), env.int('g', w), env.int('y', w), env.int('x', w)
    priv = sh.get('priv', True)
    env.assume(p >= 3)
    real = ElGamal.test_probable_prime
    ElGamal.test_probable_prime = _TablePrimality(env, w)
    undo = _small_int_shims(env)
    try:
        try:
            ElGamal.construct((p, g, y, x) if priv else (p, g, y))
            ok = True
        except ValueError:
            ok = False
    finally:
        ElGamal.test_probable_prime = real
        undo()

    def powmod(b, e, m, bits):
        r = 1
        acc = b % m
        for i in range(bits):
            r = env.ite((e >> i) & 1 == 1, (r * acc) % m, r)
            acc = (acc * acc) % m
        return r
    spec = env.And(_is_prime(env, p, w), g > 1, g < p, y >= 1, y < p)
    if priv:
        spec = env.And(spec, x > 1, x < p, powmod(g, x, p, w) == y)
    env.check(env.eqv(ok, spec), 'ElGamal.construct accepts exactly the consistent tuples (p prime, 1 < g < p, 1 <= y < p, 1 < x < p, y = g^x mod p)')


HARNESSES = dict(ecc_coord_range=Harness('ecc_coord_range', run_ecc_coord_range), ecc_d_range=Harness('ecc_d_range', run_ecc_d_range),
                 ecc_match=Harness('ecc_match', run_ecc_match), clamp=Harness('clamp', run_clamp), x_deny=Harness('x_deny', run_x_deny),
                 rsa_construct=Harness('rsa_construct', run_rsa_construct, max_paths=200000, budget_s=3000),
                 dsa_construct=Harness('dsa_construct', run_dsa_construct, max_paths=200000, budget_s=3000),
                 elgamal_construct=Harness('elgamal_construct', run_elgamal_construct, max_paths=200000, budget_s=3000),
                 ec_new_point_c=ecc_c.HARNESS_NEW_POINT, rsa_public=Harness('rsa_public', run_rsa_public, max_paths=100000, budget_s=900))


def shapes(tier):
    th = tier == 'thorough'
    jobs = []
    for c in ('P-192', 'P-224', 'P-256', 'P-384', 'P-521', 'Ed25519', 'Ed448') if th else ('P-256', 'P-521', 'Ed25519', 'Ed448'):
        jobs.append(('ecc_coord_range', dict(curve=c)))
    for c in ('P-192', 'P-224', 'P-256', 'P-384', 'P-521'):
        order_bits = {'P-192': 192, 'P-224': 224, 'P-256': 256, 'P-384': 384, 'P-521': 521}[c]
        jobs.append(('ecc_d_range', dict(curve=c, bits=order_bits + 8)))
        jobs.append(('ecc_d_range', dict(curve=c, bits=8, signed=True)))
        jobs.append(('ecc_d_range', dict(curve=c, bits=order_bits, pub=True)))
        if th or c in ('P-256', 'P-521'):
            jobs.append(('ecc_match', dict(curve=c)))
            jobs.append(('ecc_match', dict(curve=c, mirror=True)))
    for c in ('Ed25519', 'Ed448', 'Curve25519', 'Curve448'):
        jobs.append(('clamp', dict(curve=c, n=NB[c], pub=True)))
        for n in (NB[c] - 1, NB[c] + 1, 0):
            jobs.append(('clamp', dict(curve=c, n=n)))
    for c in MONT:
        jobs.append(('x_deny', dict(curve=c)))
        jobs.append(('x_deny', dict(curve=c, bits=8 * NB[c] + 3)))
        pc = 2 ** 255 - 19 if c == 'Curve25519' else 2 ** 448 - 2 ** 224 - 1
        for base in (0, pc - 4, 2 * pc - 4):
            jobs.append(('x_deny', dict(curve=c, bits=3, base=base)))
    for c in ('P-192', 'P-224', 'P-256', 'P-384', 'P-521') if th else ('P-256', 'P-521'):
        jobs.append(('ec_new_point_c', dict(curve=c)))
    for w in (3,) if not th else (3, 4):
        jobs.append(('rsa_construct', dict(w=w)))
    jobs.append(('rsa_construct', dict(w=3, tie_n=False)))
    jobs.append(('rsa_public', dict(W=5)))          # W = 7: no answer in 15 min (one gcd trace per path): outside
    for w in (5,):      # w = 6: z3 answers unknown on the assumptions already (measured): outside
        jobs.append(('dsa_construct', dict(w=w, priv=True)))
        jobs.append(('dsa_construct', dict(w=w, priv=False)))
    if th:      # p below 2^3 only, thorough only: the symbolic-modulus power chain g^(p-1) mod p is slow (w = 4, 5: no answer in 450 s, measured)
        jobs.append(('elgamal_construct', dict(w=3, priv=True)))
        jobs.append(('elgamal_construct', dict(w=3, priv=False)))
    return jobs


BOUNDS = dict(ecc="5 NIST curves + Ed25519 + Ed448 + Curve25519 + Curve448; private scalars: every integer of up to order_bits + 8 bits and small negatives; "
              "points: P + i*p, i < 4, for every public key P of the abstract group; Montgomery x: every value of up to 8n + 3 bits",
              rsa="every tuple (n,e,d,p,q,u) with p, q below 2^3 (thorough 2^4) and the others below 2^(2w); public keys: every (n, e) below 2^5",
              dsa="every tuple (p,q,g,y,x) with p below 2^5; ElGamal (thorough only): every tuple (p,g,y,x) below 2^3",
              outside=["generate() loops and FIPS 186-4 size margins on real sizes", "the probabilistic primality tests (replaced by the exact table at reduced width)",
                       "factor recovery from (n,e,d)", "the on-curve computation of the C code for all coordinates (abstract predicate; ec_new_point_c runs the real ec_ws_new_point on a list of concrete candidates incl. x = 0 / y = 0)", "ElGamal.construct (being added)",
                       "import formats (same constructors; decoding is C13)"])
ASSUMPTIONS = ["abstract EC group; every C new_point reduces its input modulo p and none checks the range (as in src/: measured on the real library)",
               "SHA-512 / SHAKE256 uninterpreted", "test_probable_prime replaced by the exact primality table below 2^w in rsa_construct / dsa_construct"]
EXPLANATION = ("bounded symbolic execution (PYSYM) of the real ECC / RSA / DSA constructors with every component a solver variable: z3 decides "
               "'accepted <=> the invariants of the key type hold' (ranges, clamping, deny lists, private/public match, n = p*q, e*d = 1 mod lcm, CRT "
               "coefficient, subgroup generator) for all component tuples within the stated widths")
