"""C02 -- symmetric ciphers and modes compute exactly their specification and invert (modes only).

What is decided here: every MODE OF OPERATION over an arbitrary (uninterpreted, bijective) block cipher
of block size 8 or 16, the ChaCha20 block function itself, 3DES key parity / degenerate-key refusal,
and the iv / nonce attributes (also when the library chose the value).
  classic   : PYSYM, real EcbMode/CbcMode/CfbMode/OfbMode/CtrMode/OpenPgpMode through <Cipher>.new
  aead      : the C01 sender harnesses (ciphertext and tag == specification; nonce attribute; round trip)
  raw_mode  : LLSYM, src/raw_ecb/cbc/cfb/ofb.c == SP 800-38A (shared with C17)
  ctr       : LLSYM, src/raw_ctr.c (shared with C11)
  chacha_block : LLSYM, the full quarter-round network of src/chacha20.c == RFC 8439 s2.3
The block / stream primitives AES, DES, 3DES, Blowfish, CAST, RC2, RC4, Salsa20 core are ASSUMED
(KAT-tested; table-driven code gives a solver nothing to compare with but a second implementation).
"""
from vlib.env import Harness
from vlib.llsym import kern
from vlib.models import aead as M
from props import c01, c11, c17

MODS = dict(AES=('AES', 16, 16), DES3=('DES3', 8, 24), DES=('DES', 8, 8), BF=('Blowfish', 8, 16), CAST=('CAST', 8, 16), ARC2=('ARC2', 8, 16))


def _mod(c):
    import importlib
    return importlib.import_module("Crypto.Cipher." + MODS[c][0])


def _cname(c):
    return 'ARC2e1024' if c == 'ARC2' else c


def run_classic(env, sh):
    P = env.P
    c, mode, n = sh['cipher'], sh['mode'], sh['n']
    mod = _mod(c)
    bs, klen = MODS[c][1], MODS[c][2]
    key = env.bytes('key', klen)
    if c == 'DES3' and not env.sym:
        key = bytes(range(1, 25))       # concrete replay: any non-degenerate key
    if c == 'DES3' and env.sym:
        # 3DES refuses keys whose halves coincide: outside this harness (see des3_parity)
        mk = 0xFEFEFEFEFEFEFEFE
        k1, k2, k3 = (P.b2i(key[8 * i:8 * i + 8]) & mk for i in range(3))
        env.assume(env.And(env.Not(k1 == k2), env.Not(k2 == k3)))
    data = env.bytes('data', n)
    given_iv = sh.get('iv', 'given')
    kw = {}
    draws = []
    if env.sym:
        from vlib.pysym import natives

        def provider(m):
            b = env.bytes('rnd%d' % len(draws), m)
            draws.append(b)
            return b
        natives.Tape.provider = provider
    try:
        if mode == 'ecb':
            tx = mod.new(key, mod.MODE_ECB)
            rx = mod.new(key, mod.MODE_ECB)
            iv = None
        elif mode in ('cbc', 'ofb', 'cfb', 'openpgp'):
            if mode == 'cfb':
                kw['segment_size'] = sh['seg']
            m_id = dict(cbc=mod.MODE_CBC, ofb=mod.MODE_OFB, cfb=mod.MODE_CFB, openpgp=mod.MODE_OPENPGP)[mode]
            if given_iv == 'given':
                iv = env.bytes('iv', sh.get('ivlen', bs))
                try:
                    tx = mod.new(key, m_id, iv=iv, **kw)
                except ValueError:
                    env.check(sh.get('ivlen', bs) != bs, 'only an IV of the wrong length is refused')
                    return
                env.check(sh.get('ivlen', bs) == bs, 'an IV of the wrong length is refused')
            else:
                tx = mod.new(key, m_id, **kw)
                iv = tx.iv
                if env.sym:
                    env.check(len(draws) >= 1 and iv == draws[0] and len(iv) == bs, 'the library-chosen IV is one fresh block of randomness, exposed as .iv')
            env.check(tx.iv == iv and tx.IV == iv, 'the iv attribute is the IV in use')
            rx = None
        elif mode == 'ctr':
            nl = sh['nlen']
            nonce = env.bytes('nonce', nl)
            init = sh.get('init')
            kw2 = dict(nonce=nonce)
            if init == 'int':
                iv0 = env.int('initial', 8 * (bs - nl))
                kw2['initial_value'] = iv0
            elif init == 'bytes':
                ivb = env.bytes('initial_b', bs - nl)
                kw2['initial_value'] = ivb
                iv0 = P.b2i(ivb)
            else:
                iv0 = 0
            tx = mod.new(key, mod.MODE_CTR, **kw2)
            env.check(tx.nonce == nonce, 'the nonce attribute is the nonce in use')
            rx = mod.new(key, mod.MODE_CTR, **kw2)
        else:
            raise KeyError(mode)
    finally:
        if env.sym:
            natives.Tape.provider = None
    cn = _cname(c)
    if c == 'DES3':
        # the primitive is keyed with the parity-adjusted key (parity bits are not key material)
        key = _odd_parity(P, key)
    needs_multiple = mode in ('ecb', 'cbc')
    try:
        ct = tx.encrypt(data)
    except ValueError:
        env.check(needs_multiple and n % bs != 0, 'only data that is not a multiple of the block size is refused (ECB/CBC)')
        return
    env.check(not (needs_multiple and n % bs != 0), 'data that is not a multiple of the block size is refused (ECB/CBC)')
    if mode == 'ecb':
        ref = M.ecb_enc(P, cn, key, data)
    elif mode == 'cbc':
        ref = M.cbc_enc(P, cn, key, iv, data)
    elif mode == 'ofb':
        ref = M.ofb(P, cn, key, iv, data)
    elif mode == 'cfb':
        ref = M.cfb_enc(P, cn, key, iv, data, sh['seg'] // 8)
    elif mode == 'ctr':
        ref = M.ctr(P, cn, key, nonce, iv0, bs - sh['nlen'], P.const(b""), data)
    else:
        # RFC 4880 s13.9: CFB (full-block) of IV || IV[-2:] under a zero IV, then CFB resynchronised on the
        # last block of that prefix
        pre = M.cfb_enc(P, cn, key, P.const(bytes(bs)), P.concat(iv, iv[bs - 2:]), bs)
        ref = P.concat(pre, M.cfb_enc(P, cn, key, pre[2:], data, bs))
    env.check(ct == ref, 'ciphertext == %s of the specification' % mode.upper())
    # a peer that knows only what the object exposes decrypts to the message
    if mode == 'openpgp':
        rx = mod.new(key, mod.MODE_OPENPGP, iv=ct[:bs + 2])
        env.check(rx.decrypt(ct[bs + 2:]) == data, 'a peer initialised with the encrypted IV decrypts to the message')
        env.check(rx.iv == iv, 'the peer recovers the IV')
    else:
        if rx is None:
            m_id = dict(cbc=mod.MODE_CBC, ofb=mod.MODE_OFB, cfb=mod.MODE_CFB)[mode]
            rx = mod.new(key, m_id, iv=tx.iv, **kw)
        env.check(rx.decrypt(ct) == data, 'decrypt(encrypt(M)) == M for a peer built from the exposed iv / nonce')


def _odd_parity(P, key):
    out = []
    for i in range(len(key)):
        b = key[i]
        par = 1
        for j in range(1, 8):
            par = par ^ ((b >> j) & 1)
        out.append(P.i2b((b & 0xFE) | par, 1))
    return P.concat(*out)


def run_des3_parity(env, sh):
    from Crypto.Cipher import DES3
    n = sh['klen']
    key = env.bytes('key', n)
    try:
        out = DES3.adjust_key_parity(key)
        ok = True
    except ValueError:
        ok = False
    if n not in (16, 24):
        env.check(not ok, 'only 16- and 24-byte keys are TDES keys')
        return
    P = env.P
    # FIPS 46-3: the low bit of every byte makes its parity odd
    ref = []
    for i in range(n):
        b = key[i]
        par = 1
        for j in range(1, 8):
            par = par ^ ((b >> j) & 1)
        ref.append(P.i2b((b & 0xFE) | par, 1))
    ref = P.concat(*ref)
    degenerate = env.Or(ref[:8] == ref[8:16], ref[n - 16:n - 8] == ref[n - 8:])
    env.iff(ok, env.Not(degenerate), 'refused exactly when K1 == K2 or K2 == K3 (after parity adjustment)')
    if ok:
        env.check(out == ref, 'every byte keeps its 7 key bits and gets odd parity')


# ---- ChaCha20 block function (RFC 8439 s2.3) against the C, term for term

def _rotl(x, n, sym):
    if sym:
        import z3
        return (x << n) | z3.LShR(x, 32 - n)
    return ((x << n) | (x >> (32 - n))) & 0xFFFFFFFF


def _add(a, b, sym):
    return a + b if sym else (a + b) & 0xFFFFFFFF


def _qr(s, a, b, c, d, sym):
    s[a] = _add(s[a], s[b], sym); s[d] = s[d] ^ s[a]; s[d] = _rotl(s[d], 16, sym)
    s[c] = _add(s[c], s[d], sym); s[b] = s[b] ^ s[c]; s[b] = _rotl(s[b], 12, sym)
    s[a] = _add(s[a], s[b], sym); s[d] = s[d] ^ s[a]; s[d] = _rotl(s[d], 8, sym)
    s[c] = _add(s[c], s[d], sym); s[b] = s[b] ^ s[c]; s[b] = _rotl(s[b], 7, sym)


def _chacha_block_words(init, sym):
    s = list(init)
    for _ in range(10):
        _qr(s, 0, 4, 8, 12, sym); _qr(s, 1, 5, 9, 13, sym); _qr(s, 2, 6, 10, 14, sym); _qr(s, 3, 7, 11, 15, sym)
        _qr(s, 0, 5, 10, 15, sym); _qr(s, 1, 6, 11, 12, sym); _qr(s, 2, 7, 8, 13, sym); _qr(s, 3, 4, 9, 14, sym)
    return [_add(x, y, sym) for x, y in zip(s, init)]


def _selftest_ref():
    # RFC 8439 s2.3.2 test vector
    key = bytes(range(32))
    nonce = bytes.fromhex("000000090000004a00000000")
    init = [0x61707865, 0x3320646e, 0x79622d32, 0x6b206574] + [int.from_bytes(key[4 * i:4 * i + 4], 'little') for i in range(8)] + \
           [1] + [int.from_bytes(nonce[4 * i:4 * i + 4], 'little') for i in range(3)]
    out = b"".join(w.to_bytes(4, 'little') for w in _chacha_block_words(init, False))
    assert out[:16].hex() == "10f1e7e4d13b5915500fdd1fa32071c4", out[:16].hex()


def run_chacha_block(env, sh):
    """one keystream block for a symbolic key, nonce and block counter"""
    P = env.P
    _selftest_ref()
    K = kern.kernel(env, 'chacha20.c')
    key = env.bytes('key', 32)
    nl = sh['nlen']
    nonce = env.bytes('nonce', nl)
    slot = K.ptr_slot()
    env.check(K.call('chacha20_init', slot, K.buf(key, False, 'key'), 32, K.buf(nonce, False, 'nonce'), nl) == 0, 'init ok')
    st = K.deref(slot)
    ctr = env.int('counter', 32)
    env.assume(ctr < 0xFFFFFFFF)
    env.check(K.call('chacha20_seek', st, 0, ctr, 0) == 0, 'seek ok')
    zeros = bytes(64)
    out = K.out(64, 'ks')
    env.check(K.call('chacha20_encrypt', st, K.buf(zeros, False, 'zeros'), out, 64) == 0, 'encrypt ok')
    got = K.read(out, 64)
    if env.sym:
        import z3
        from vlib.pysym import core

        def word(bs4):
            return z3.Concat(*[core.byte_expr(b) for b in reversed(core.to_elems(bs4))])
        kw = [word(key[4 * i:4 * i + 4]) for i in range(8)]
        nw = [word(nonce[4 * i:4 * i + 4]) for i in range(nl // 4)]
        cw = z3.Extract(31, 0, ctr.e) if ctr.w >= 32 else z3.ZeroExt(32 - ctr.w, ctr.e)
        tail = [cw] + nw if nl == 12 else [cw, z3.BitVecVal(0, 32)] + nw
        init = [z3.BitVecVal(c, 32) for c in (0x61707865, 0x3320646e, 0x79622d32, 0x6b206574)] + kw + tail
        words = _chacha_block_words(init, True)
        ref = core.SymBytes([core._simp_byte(z3.Extract(8 * k + 7, 8 * k, w)) for w in words for k in range(4)])
    else:
        kw = [int.from_bytes(key[4 * i:4 * i + 4], 'little') for i in range(8)]
        nw = [int.from_bytes(nonce[4 * i:4 * i + 4], 'little') for i in range(nl // 4)]
        tail = [ctr] + nw if nl == 12 else [ctr, 0] + nw
        words = _chacha_block_words([0x61707865, 0x3320646e, 0x79622d32, 0x6b206574] + kw + tail, False)
        ref = b"".join(w.to_bytes(4, 'little') for w in words)
    env.check(got == ref, 'keystream block == RFC 8439 s2.3 chacha20_block(key, counter, nonce)')
    K.call('chacha20_destroy', st)


OWN = dict(classic=Harness('classic', run_classic), des3_parity=Harness('des3_parity', run_des3_parity),
           chacha_block=Harness('chacha_block', run_chacha_block, timeout_ms=120000))
HARNESSES = dict(OWN)
HARNESSES.update({k: v for k, v in c01.HARNESSES.items() if k in ('enc', 'siv_enc', 'kw_seal', 'kwp_seal')})
HARNESSES.update({k: v for k, v in c17.OWN.items() if k == 'raw_mode'})
HARNESSES.update({k: v for k, v in c11.HARNESSES.items() if k in ('ctr_stream', 'chacha_seq')})


def own_shapes(tier):
    th = tier == 'thorough'
    jobs = []
    for c in (('AES', 'DES3', 'DES', 'BF', 'CAST', 'ARC2') if th else ('AES', 'DES3')):
        bs = MODS[c][1]
        lens = (0, 1, bs - 1, bs, bs + 1, 2 * bs, 2 * bs + 1) if th else (0, 1, bs, bs + 1, 2 * bs + 1)
        for n in lens:
            jobs.append(('classic', dict(cipher=c, mode='ecb', n=n)))
            for mode in ('cbc', 'ofb', 'openpgp'):
                jobs.append(('classic', dict(cipher=c, mode=mode, n=n)))
            for seg in (range(8, 8 * bs + 1, 8) if th else (8, 8 * bs, 8 * (bs - 1))):
                jobs.append(('classic', dict(cipher=c, mode='cfb', n=n, seg=seg)))
            for nl in ((0, 1, bs // 2, bs - 1) if th else (0, bs // 2, bs - 1)):
                for init in (None, 'int', 'bytes'):
                    jobs.append(('classic', dict(cipher=c, mode='ctr', n=n, nlen=nl, init=init)))
        for mode in ('cbc', 'ofb', 'cfb', 'openpgp'):
            extra = dict(seg=8 * bs) if mode == 'cfb' else {}
            jobs.append(('classic', dict(cipher=c, mode=mode, n=2 * bs, iv='random', **extra)))
            if mode != 'openpgp':
                jobs.append(('classic', dict(cipher=c, mode=mode, n=bs, ivlen=bs - 1, **extra)))
                jobs.append(('classic', dict(cipher=c, mode=mode, n=bs, ivlen=bs + 1, **extra)))
        jobs.append(('classic', dict(cipher=c, mode='ctr', n=8 * bs + 1 if not th else 9 * bs + 3, nlen=bs // 2, init='int')))
    for klen in (8, 16, 24, 32):
        jobs.append(('des3_parity', dict(klen=klen)))
    for nl in (8, 12):
        jobs.append(('chacha_block', dict(nlen=nl)))
    return jobs


def shapes(tier):
    jobs = own_shapes(tier)
    jobs += [j for j in c01.shapes(tier) if j[0] in ('enc', 'siv_enc', 'kw_seal', 'kwp_seal')]
    jobs += [j for j in c17.own_shapes(tier) if j[0] == 'raw_mode' and j[1].get('alias', 'none') in ('none', 'same') and j[1]['mode'] != 'ocb']
    jobs += [j for j in c11.shapes(tier) if j[0] == 'ctr_stream' and sum(j[1].get('calls', [0])) < 400]
    jobs += [j for j in c11.shapes(tier) if j[0] == 'chacha_seq']
    return jobs


BOUNDS = dict(classic="AES and 3DES in quick, all six block ciphers in thorough (as uninterpreted bijections of their block size); "
              "message lengths 0,1,bs-1,bs,bs+1,2bs,2bs+1; every CFB segment size; CTR nonce lengths 0..bs-1 with int/bytes/default "
              "initial value; given and library-chosen IVs", aead="the C01 sender grid", raw="the C17 raw-mode grid", ctr="the C11 grid",
              chacha="one block, symbolic key / nonce / 32-bit counter, both nonce layouts; multi-block streams and 64-bit counter carries through the C11 chacha_seq grid",
              outside=["AES, DES, 3DES, Blowfish, CAST, RC2, RC4, Salsa20 cores (assumed: KAT-tested)", "messages beyond the grids",
                       "Salsa20 / ARC4 wrappers", "AESNI.c"])
ASSUMPTIONS = list(c01.ASSUMPTIONS) + ["block primitives are assumed to equal their standards"]
EXPLANATION = ("bounded symbolic execution of the real mode classes (PYSYM) and C kernels (LLSYM) with the block cipher an uninterpreted "
               "bijection: z3 decides ciphertext == SP 800-38A / RFC 4880 / RFC 8439 mode equations and decrypt(encrypt) = id for a peer "
               "built from the exposed iv/nonce; the ChaCha20 quarter-round network of the C is compared term for term with RFC 8439")
