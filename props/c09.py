"""C09 -- results do not depend on data segmentation, buffer type or in-place output.

PYSYM, differential between two objects of the same real class with symbolic data:
  seg     : O1.feed(S1); O1.feed(S2)  vs  O2.feed(S1 || S2)  for every cut offset -- outputs and final
            tag / digest equal (AEAD: associated data and message streams; SIV: component sequence kept)
  buftype : the same call with the data carried as bytes / bytearray / memoryview / a memoryview slice at
            an odd offset of a larger buffer
  outmode : result returned vs written to output=bytearray vs output=memoryview vs output = the input buffer
LLSYM (shared drivers): the C streaming state of raw_cbc/cfb/ofb.c across calls at every cut, raw_ctr.c
multi-call patterns, MD hashes / keccak absorb-squeeze over every segmentation of the grid, in==out.
"""
from vlib.env import Harness
from props import c17, c03, c11

AEADS = ('gcm', 'ccm', 'eax', 'ocb', 'chacha')
CLASSIC = ('cbc', 'cfb', 'ofb', 'ctr', 'openpgp', 'chacha20')


CCM_LENS = [None]


def _new(mode, key, nonce, mac=None):
    from Crypto.Cipher import AES, ChaCha20_Poly1305, ChaCha20
    if mode == 'gcm':
        return AES.new(key, AES.MODE_GCM, nonce=nonce)
    if mode == 'ccm':
        if CCM_LENS[0]:
            # CCM needs the lengths in advance when the message comes in several pieces
            return AES.new(key, AES.MODE_CCM, nonce=nonce, assoc_len=CCM_LENS[0][0], msg_len=CCM_LENS[0][1])
        return AES.new(key, AES.MODE_CCM, nonce=nonce)
    if mode == 'eax':
        return AES.new(key, AES.MODE_EAX, nonce=nonce)
    if mode == 'ocb':
        return AES.new(key, AES.MODE_OCB, nonce=nonce)
    if mode == 'chacha':
        return ChaCha20_Poly1305.new(key=key, nonce=nonce)
    if mode == 'cbc':
        return AES.new(key, AES.MODE_CBC, iv=nonce)
    if mode == 'cfb':
        return AES.new(key, AES.MODE_CFB, iv=nonce, segment_size=64)
    if mode == 'ofb':
        return AES.new(key, AES.MODE_OFB, iv=nonce)
    if mode == 'ctr':
        return AES.new(key, AES.MODE_CTR, nonce=nonce[:8])
    if mode == 'openpgp':
        return AES.new(key, AES.MODE_OPENPGP, iv=nonce)
    if mode == 'chacha20':
        return ChaCha20.new(key=key, nonce=nonce[:12])
    raise KeyError(mode)


def _keys(env, mode):
    key = env.bytes('key', 32 if mode in ('chacha', 'chacha20') else 16)
    nl = dict(gcm=12, ccm=11, eax=16, ocb=15, chacha=12).get(mode, 16)
    return key, env.bytes('nonce', nl)


def _enc_all(ci, mode, parts, decrypt=False):
    f = ci.decrypt if decrypt else ci.encrypt
    out = [f(p) for p in parts]
    if mode == 'ocb':
        out.append(f())
    return out


def _cat(env, xs):
    xs = [x for x in xs]
    return env.P.concat(*xs) if xs else env.P.const(b"")


def run_seg(env, sh):
    mode, total, cut, stream = sh['mode'], sh['total'], sh['cut'], sh['stream']
    key, nonce = _keys(env, mode)
    a_len = total if stream == 'aad' else sh.get('other', 5)
    m_len = total if stream == 'msg' else sh.get('other', 5)
    if mode in ('cbc',):
        m_len = 48
        cut = (cut // 16) * 16
    aad = env.bytes('aad', a_len) if mode in AEADS else None
    msg = env.bytes('msg', m_len)
    decrypt = sh.get('dec', False)
    CCM_LENS[0] = (a_len, m_len) if mode == 'ccm' else None
    try:
        one = _new(mode, key, nonce)
        two = _new(mode, key, nonce)
    finally:
        CCM_LENS[0] = None
    if mode in AEADS:
        one.update(aad)
        if stream == 'aad':
            two.update(aad[:cut])
            if sh.get('three'):
                two.update(aad[cut:cut])        # an empty piece in the middle (possibly with a partial block cached)
            two.update(aad[cut:])
        else:
            two.update(aad)
    o1 = _enc_all(one, mode, [msg], decrypt)
    parts = [msg[:cut], msg[cut:]] if stream == 'msg' else [msg]
    if sh.get('three') and stream == 'msg':
        parts = [msg[:cut], msg[cut:cut], msg[cut:]]
    o2 = _enc_all(two, mode, parts, decrypt)
    env.check(_cat(env, o1) == _cat(env, o2), 'concatenated outputs are independent of the segmentation')
    if mode in AEADS:
        if decrypt:
            # both objects must agree on the tag they would accept: compare through the sender side of a third object
            pass
        else:
            env.check(one.digest() == two.digest(), 'the tag is independent of the segmentation')


def _as(env, data, kind):
    if kind == 'bytes':
        return data
    if kind == 'bytearray':
        return env.as_bytearray(data)
    if kind == 'memoryview':
        return env.as_memoryview(data)
    if kind == 'mvslice':
        big = env.as_bytearray(env.P.concat(b"\xAA\xBB\xCC", data, b"\xDD"))
        return env.view(big, 3, len(data))
    raise KeyError(kind)


def run_buftype(env, sh):
    mode, kind = sh['mode'], sh['kind']
    key, nonce = _keys(env, mode)
    aad = env.bytes('aad', 17) if mode in AEADS else None
    msg = env.bytes('msg', 48 if mode == 'cbc' else 33)
    ref = _new(mode, key, nonce)
    alt = _new(mode, _as(env, key, kind) if sh.get('key_too') else key, _as(env, nonce, kind) if sh.get('key_too') else nonce)
    if mode in AEADS:
        ref.update(aad)
        alt.update(_as(env, aad, kind))
    o1 = _enc_all(ref, mode, [msg])
    o2 = _enc_all(alt, mode, [_as(env, msg, kind)])
    env.check(_cat(env, o1) == _cat(env, o2), 'same ciphertext whichever documented buffer type carries the data')
    if mode in AEADS:
        env.check(ref.digest() == alt.digest(), 'same tag whichever documented buffer type carries the data')


def run_outmode(env, sh):
    mode, om = sh['mode'], sh['out']
    key, nonce = _keys(env, mode)
    aad = env.bytes('aad', 5) if mode in AEADS else None
    msg = env.bytes('msg', 48 if mode == 'cbc' else 33)
    decrypt = sh.get('dec', False)
    ref = _new(mode, key, nonce)
    alt = _new(mode, key, nonce)
    if mode in AEADS:
        ref.update(aad)
        alt.update(aad)
    f1 = ref.decrypt if decrypt else ref.encrypt
    f2 = alt.decrypt if decrypt else alt.encrypt
    expect = f1(msg)
    src = env.as_bytearray(msg)
    if om == 'bytearray':
        dst = env.as_bytearray(bytes(len(msg)))
        r = f2(msg, output=dst)
        got = env.tobytes(dst)
    elif om == 'memoryview':
        base = env.as_bytearray(bytes(len(msg) + 2))
        dst = env.view(base, 1, len(msg))
        r = f2(msg, output=dst)
        got = env.tobytes(base)[1:1 + len(msg)]
    else:   # in place
        r = f2(src, output=src)
        got = env.tobytes(src)
    env.check(r is None, 'nothing is returned when output= is given')
    env.check(got == expect, 'output= buffer holds what the returning call returns (also when it is the input buffer)')
    if mode in AEADS and not decrypt:
        env.check(ref.digest() == alt.digest(), 'the tag does not depend on where the ciphertext was written')
    if mode in AEADS and decrypt:
        # the MAC must have been computed over the CIPHERTEXT also when it was overwritten in place
        t1 = _sender_tag(env, mode, key, nonce, aad, expect)
        try:
            alt.verify(t1)
        except ValueError:
            env.check(False, 'in-place decryption still verifies the genuine tag')


def _sender_tag(env, mode, key, nonce, aad, pt):
    tx = _new(mode, key, nonce)
    tx.update(aad)
    _enc_all(tx, mode, [pt])
    return tx.digest()


def run_mac_seg(env, sh):
    """CMAC / HMAC: update(S1); update(S2) == update(S1 || S2); copy() in the middle"""
    kind, total, cut = sh['kind'], sh['total'], sh['cut']
    key = env.bytes('key', 16)
    msg = env.bytes('msg', total)
    if kind == 'cmac':
        from Crypto.Hash import CMAC
        from Crypto.Cipher import AES
        mk = lambda: CMAC.new(key, ciphermod=AES)
    else:
        from Crypto.Hash import HMAC, SHA256
        mk = lambda: HMAC.new(key, digestmod=SHA256)
    one = mk()
    one.update(msg)
    two = mk()
    two.update(msg[:cut])
    clone = two.copy() if sh.get('copy') else None
    two.update(msg[cut:])
    env.check(one.digest() == two.digest(), 'MAC independent of the segmentation')
    if clone is not None:
        three = mk()
        three.update(msg[:cut])
        env.check(clone.digest() == three.digest(), 'a copy taken mid-stream is unaffected by later updates of the original')
    for kindb in ('bytearray', 'memoryview', 'mvslice'):
        alt = mk()
        alt.update(_as(env, msg, kindb))
        env.check(alt.digest() == one.digest(), 'same MAC for %s input' % kindb)


OWN = dict(seg=Harness('seg', run_seg), buftype=Harness('buftype', run_buftype), outmode=Harness('outmode', run_outmode),
           mac_seg=Harness('mac_seg', run_mac_seg))
HARNESSES = dict(OWN)
HARNESSES.update({k: v for k, v in c17.OWN.items() if k in ('raw_mode_seg', 'raw_mode')})
HARNESSES.update({k: v for k, v in c03.HARNESSES.items() if k in ('md', 'sponge', 'poly_mac')})
HARNESSES.update({k: v for k, v in c11.HARNESSES.items() if k == 'ctr_stream'})


def own_shapes(tier):
    th = tier == 'thorough'
    jobs = []
    for mode in AEADS:
        total = 33
        cuts = range(0, total + 1) if th else (0, 1, 15, 16, 17, 32)
        for stream in ('aad', 'msg'):
            for cut in cuts:
                jobs.append(('seg', dict(mode=mode, total=total, cut=cut, stream=stream)))
                if stream == 'msg' and (th or cut in (16, 17)):
                    jobs.append(('seg', dict(mode=mode, total=total, cut=cut, stream=stream, dec=True)))
        for cut in (1, 16, 17) if not th else (0, 1, 15, 16, 17, 31, 32, 33):
            for stream in ('aad', 'msg'):
                jobs.append(('seg', dict(mode=mode, total=33, cut=cut, stream=stream, three=True)))
                if stream == 'msg':
                    jobs.append(('seg', dict(mode=mode, total=33, cut=cut, stream=stream, three=True, dec=True)))
    for mode in CLASSIC:
        total = 48 if mode == 'cbc' else 33
        cuts = range(0, total + 1) if th else (0, 1, 7, 8, 9, 16, 17, 32)
        for cut in cuts:
            for dec in (False, True):
                if mode == 'openpgp' and dec:
                    continue
                jobs.append(('seg', dict(mode=mode, total=total, cut=cut, stream='msg', dec=dec)))
    for mode in AEADS + CLASSIC:
        for kind in ('bytearray', 'memoryview', 'mvslice'):
            jobs.append(('buftype', dict(mode=mode, kind=kind)))
        jobs.append(('buftype', dict(mode=mode, kind='bytearray', key_too=True)))
    for mode in ('gcm', 'ccm', 'eax', 'chacha', 'cbc', 'cfb', 'ofb', 'ctr', 'chacha20'):
        for om in ('bytearray', 'memoryview', 'inplace'):
            for dec in (False, True):
                if mode == 'chacha' and om != 'bytearray' and False:
                    continue
                jobs.append(('outmode', dict(mode=mode, out=om, dec=dec)))
    for kind in ('cmac', 'hmac'):
        total = 33 if kind == 'cmac' else 70
        for cut in (range(0, total + 1) if th else (0, 1, 15, 16, 17, 32)):
            jobs.append(('mac_seg', dict(kind=kind, total=total, cut=cut, copy=(cut in (1, 16, 17)))))
    return jobs


def shapes(tier):
    jobs = own_shapes(tier)
    jobs += [j for j in c17.own_shapes(tier) if j[0] == 'raw_mode_seg' or (j[0] == 'raw_mode' and j[1].get('alias') == 'same')]
    jobs += [j for j in c03.shapes(tier) if (j[0] == 'md' and len(j[1]['segs']) > 1) or (j[0] == 'sponge' and (len(j[1]['segs']) > 1 or len(j[1]['reads']) > 1))
             or (j[0] == 'poly_mac' and len(j[1]['segs']) > 1)]
    jobs += [j for j in c11.shapes(tier) if j[0] == 'ctr_stream' and len(j[1].get('calls', [])) > 1 and sum(j[1]['calls']) < 400]
    return jobs


BOUNDS = dict(py="AEAD: 33-byte AAD and message streams cut at 0,1,15,16,17,32 (quick) / every offset (thorough); classic modes and ChaCha20: 33 (CBC 48) "
              "bytes cut at 0,1,7,8,9,16,17,32 / every offset; CMAC 33 bytes, HMAC-SHA256 70 bytes; bytes/bytearray/memoryview/odd-offset "
              "memoryview slice; returned vs output=bytearray vs output=memoryview vs in place", c="the C17/C03/C11 multi-call and in==out drivers",
              outside=["longer streams", "the real _raw_api.c_uint8_ptr conversions (cffi/ctypes)", "KangarooTwelve 8192-byte chunking, Salsa20 (not yet)",
                       "SIV component vectors beyond the C01 grid"])
ASSUMPTIONS = ["primitives uninterpreted as in C01 (the differential needs no reference model)", "two-segmentation: by induction on the number of calls, "
               "equality of outputs for every 2-cut of every prefix gives every k-segmentation within the length bound (state equality is observed through "
               "all later outputs of the grid, not compared field by field)"]
EXPLANATION = ("symbolic differential between two objects of the same real class (PYSYM): z3 decides that outputs and tags are equal for every cut "
               "offset, buffer type and output mode with all data bytes solver variables; the C streaming state is covered by the shared LLSYM drivers")
