"""C03 -- hashes, XOFs and MACs equal their standards; verify accepts only the true tag.

LLSYM on the real C buffering / padding / finalisation code with the compression function (or
permutation) replaced by an uninterpreted function:  hash_SHA2_template.c (SHA-224/256/384/512 and the
truncated variants), SHA1.c, MD5.c, RIPEMD160.c, keccak.c, blake2.c.  The digest must equal the
standard's padding + iteration over that same uninterpreted function, for every message of each length.
PYSYM on the Python glue: HMAC, CMAC, cSHAKE/KMAC/TupleHash encodings, MAC verify.
"""
from vlib.env import Harness
from vlib.llsym import kern

MD = dict(
    SHA256=dict(cfile='SHA256.c', pfx='SHA256', compress='sha_compress', B=64, W=4, NW=8, lenbytes=8, big=True, dig=32,
                fields=dict(h=0, buf=1, curlen=2, totbits=3), init_arg=None, digest_arg=True, hashlib='sha256'),
    SHA224=dict(cfile='SHA224.c', pfx='SHA224', compress='sha_compress', B=64, W=4, NW=8, lenbytes=8, big=True, dig=28,
                fields=dict(h=0, buf=1, curlen=2, totbits=3), init_arg=None, digest_arg=True, hashlib='sha224'),
    SHA512=dict(cfile='SHA512.c', pfx='SHA512', compress='sha_compress', B=128, W=8, NW=8, lenbytes=16, big=True, dig=64,
                fields=dict(h=0, buf=1, curlen=2, totbits=3), init_arg=64, digest_arg=True, hashlib='sha512'),
    SHA512_256=dict(cfile='SHA512.c', pfx='SHA512', compress='sha_compress', B=128, W=8, NW=8, lenbytes=16, big=True, dig=32,
                    fields=dict(h=0, buf=1, curlen=2, totbits=3), init_arg=32, digest_arg=True, hashlib='sha512_256'),
    SHA512_224=dict(cfile='SHA512.c', pfx='SHA512', compress='sha_compress', B=128, W=8, NW=8, lenbytes=16, big=True, dig=28,
                    fields=dict(h=0, buf=1, curlen=2, totbits=3), init_arg=28, digest_arg=True, hashlib='sha512_224'),
    SHA384=dict(cfile='SHA384.c', pfx='SHA384', compress='sha_compress', B=128, W=8, NW=8, lenbytes=16, big=True, dig=48,
                fields=dict(h=0, buf=1, curlen=2, totbits=3), init_arg=None, digest_arg=True, hashlib='sha384'),
    SHA1=dict(cfile='SHA1.c', pfx='SHA1', compress='sha_compress', B=64, W=4, NW=5, lenbytes=8, big=True, dig=20,
              fields=dict(h=0, buf=1, curlen=2, totbits=3), init_arg=None, digest_arg=False, hashlib='sha1'),
    MD5=dict(cfile='MD5.c', pfx='MD5', compress='md5_compress', B=64, W=4, NW=4, lenbytes=8, big=False, dig=16,
             fields=dict(h=0, buf=1, curlen=2, totbits=3), init_arg=None, digest_arg=False, hashlib='md5'),
    RIPEMD160=dict(cfile='RIPEMD160.c', pfx='ripemd160', compress='ripemd160_compress', B=64, W=4, NW=5, lenbytes=8, big=False,
                   dig=20, fields=dict(h=0, buf=2, curlen=3, totbits=1), init_arg=None, digest_arg=False, hashlib='ripemd160',
                   compress_clears=True),
)


def _struct_name(K):
    for n in ('struct.t_hash_state', 'struct.hash_state'):
        if K.sym and n in K.m.mod.structs:
            return n
    return 'struct.t_hash_state'


def _compress_stub(cfg, offs):
    from vlib.pysym import natives

    def stub(mach, args):
        hs = args[0]
        hb = cfg['W'] * cfg['NW']
        h = [mach._byte(hs.obj, hs.off + offs['h'] + i) for i in range(hb)]
        blk = [mach._byte(hs.obj, hs.off + offs['buf'] + i) for i in range(cfg['B'])]
        mach._check(hs, offs['buf'] + cfg['B'], False)
        new = natives.UF("COMPRESS_" + cfg['pfx'], [h, blk], hb)
        for i, x in enumerate(new):
            mach._store_raw(hs.obj, hs.off + offs['h'] + i, 1, x)
        if cfg.get('compress_clears'):
            # ripemd160_compress() also wipes the block buffer and resets bufpos (the padding code relies on it)
            for i in range(cfg['B']):
                mach._store_raw(hs.obj, hs.off + offs['buf'] + i, 1, 0)
            mach._store_raw(hs.obj, hs.off + offs['curlen'], 4, 0)
        return None
    return stub


def _ref_digest(env, cfg, h0, msg):
    """FIPS 180-4 s5.1 / RFC 1321 s3.1-3.2 padding, iteration of the (uninterpreted) compression function,
    and output serialisation, from the initial chaining value h0 (memory image)"""
    P = env.P
    B, W, NW = cfg['B'], cfg['W'], cfg['NW']
    n = len(msg)
    padlen = (-(n + 1 + cfg['lenbytes'])) % B
    bits = (8 * n).to_bytes(cfg['lenbytes'], 'big' if cfg['big'] else 'little')
    padded = P.concat(msg, b"\x80", bytes(padlen), bits)
    h = h0
    for i in range(0, len(padded), B):
        h = P.uf("COMPRESS_" + cfg['pfx'], [h, padded[i:i + B]], W * NW)
    if cfg['big']:
        out = P.concat(*[P.concat(*[h[w * W + (W - 1 - k):w * W + (W - k)] for k in range(W)]) for w in range(NW)])
    else:
        out = h
    return out[:cfg['dig']]


def run_md(env, sh):
    algo = sh['algo']
    cfg = MD[algo]
    segs = sh['segs']
    msg_parts = [env.bytes('m%d' % i, n) for i, n in enumerate(segs)]
    msg = env.P.concat(*msg_parts) if msg_parts else env.P.const(b"")
    if env.sym:
        K = kern.kernel(env, cfg['cfile'])
        sname = _struct_name(K)
        offs = {k: K.field_off(sname, i) for k, i in cfg['fields'].items()}
        K.m.stubs[cfg['compress']] = _compress_stub(cfg, offs)
    else:
        K = kern.kernel(env, cfg['cfile'])
    pfx = cfg['pfx']
    slot = K.ptr_slot()
    r = K.call(pfx + '_init', slot, *( [cfg['init_arg']] if cfg['init_arg'] is not None else []))
    env.check(r == 0, 'init succeeds')
    st = K.deref(slot)
    hb = cfg['W'] * cfg['NW']
    if env.sym:
        h0 = K.read(st, hb, offs['h'])
    copy_at = sh.get('copy_at')
    clone = None
    for i, part in enumerate(msg_parts):
        if copy_at == i:
            slot2 = K.ptr_slot()
            K.call(pfx + '_init', slot2, *([cfg['init_arg']] if cfg['init_arg'] is not None else []))
            clone = K.deref(slot2)
            env.check(K.call(pfx + '_copy', st, clone) == 0, 'copy succeeds')
            clone_msg = env.P.concat(*msg_parts[:i]) if i else env.P.const(b"")
        env.check(K.call(pfx + '_update', st, K.buf(part, False, 'm%d' % i), len(part)) == 0, 'update succeeds')
    out = K.out(cfg['dig'], 'digest')
    dargs = [cfg['dig']] if cfg['digest_arg'] else []
    env.check(K.call(pfx + '_digest', st, out, *dargs) == 0, 'digest succeeds')
    got = K.read(out, cfg['dig'])
    if env.sym:
        env.check(got == _ref_digest(env, cfg, h0, msg), 'digest == standard padding + iteration + serialisation')
    else:
        import hashlib
        env.check(got == hashlib.new(cfg['hashlib'], bytes(msg)).digest(), 'digest == reference implementation')
    # digest() must not disturb the state: hashing continues
    if sh.get('more'):
        extra = env.bytes('extra', sh['more'])
        env.check(K.call(pfx + '_update', st, K.buf(extra, False, 'extra'), sh['more']) == 0, 'update after digest')
        out2 = K.out(cfg['dig'], 'digest2')
        K.call(pfx + '_digest', st, out2, *dargs)
        m2 = env.P.concat(msg, extra)
        if env.sym:
            env.check(K.read(out2, cfg['dig']) == _ref_digest(env, cfg, h0, m2), 'digest() leaves the running state untouched')
        else:
            import hashlib
            env.check(K.read(out2, cfg['dig']) == hashlib.new(cfg['hashlib'], bytes(m2)).digest(), 'digest() leaves the running state untouched')
    if clone is not None:
        outc = K.out(cfg['dig'], 'digest_clone')
        K.call(pfx + '_digest', clone, outc, *dargs)
        if env.sym:
            env.check(K.read(outc, cfg['dig']) == _ref_digest(env, cfg, h0, clone_msg), 'copy continues independently from the state at the moment of copying')
        else:
            import hashlib
            env.check(K.read(outc, cfg['dig']) == hashlib.new(cfg['hashlib'], bytes(clone_msg)).digest(), 'copy independent')
        K.call(pfx + '_destroy', clone)
    if cfg['digest_arg']:
        bad = K.out(cfg['dig'] + 1, 'bad')
        env.check(K.call(pfx + '_digest', st, bad, cfg['dig'] + 1) != 0, 'wrong digest size refused')
    K.check_frame(('digest', 'pResult', 'bad'))
    K.call(pfx + '_destroy', st)
    K.check_memory_safe()
    env.check(K.live_heap() == [], 'destroy releases the state')


# ---- Keccak sponge (FIPS 202 s4: pad10*1 with the domain byte, absorb, squeeze)

def _keccak_f_stub(mach, args):
    from vlib.pysym import natives
    st, rounds = args
    cur = [mach._byte(st.obj, st.off + i) for i in range(200)]
    mach._check(st, 200, False)
    r = rounds if type(rounds) is int else mach._cint(rounds)
    new = natives.UF("KECCAK_F1600_r%d" % r, [cur], 200)
    for i, x in enumerate(new):
        mach._store_raw(st.obj, st.off + i, 1, x)
    return None


def _ref_sponge(env, cap, rounds, padding, msg, outlen):
    P = env.P
    r = 200 - cap
    n = len(msg)
    q = r - (n % r)
    if q == 1:
        pad = bytes([padding | 0x80])
    else:
        pad = bytes([padding]) + bytes(q - 2) + b"\x80"
    padded = P.concat(msg, pad)
    st = P.const(bytes(200))
    for i in range(0, len(padded), r):
        st = P.uf("KECCAK_F1600_r%d" % rounds, [P.concat(P.xor(st[:r], padded[i:i + r]), st[r:])], 200)
    out = [st[:r]]
    got = r
    while got < outlen:
        st = P.uf("KECCAK_F1600_r%d" % rounds, [st], 200)
        out.append(st[:r])
        got += r
    return P.concat(*out)[:outlen]


def _hashlib_sponge(cap, rounds, padding, msg, outlen):
    import hashlib
    if rounds != 24:
        return None
    if padding == 0x06 and cap in (56, 64, 96, 128) and outlen <= cap // 2:
        return hashlib.new('sha3_%d' % (cap * 4), msg).digest()[:outlen]
    if padding == 0x1F and cap in (32, 64):
        return hashlib.new('shake_%d' % (cap * 4), msg).digest(outlen)
    return None


def run_sponge(env, sh):
    cap, rounds, padding = sh['cap'], sh['rounds'], sh['padding']
    K = kern.kernel(env, 'keccak.c')
    if env.sym:
        K.m.stubs['keccak_function'] = _keccak_f_stub
    parts = [env.bytes('m%d' % i, n) for i, n in enumerate(sh['segs'])]
    msg = env.P.concat(*parts) if parts else env.P.const(b"")
    total_out = sum(sh['reads'])
    slot = K.ptr_slot()
    r = K.call('keccak_init', slot, cap, rounds)
    legal = cap < 200 and rounds in (12, 24)
    if not legal:
        env.check(r != 0, 'illegal capacity / rounds refused')
        K.check_memory_safe()
        return
    env.check(r == 0, 'init succeeds')
    st = K.deref(slot)
    for i, part in enumerate(parts):
        env.check(K.call('keccak_absorb', st, K.buf(part, False, 'm%d' % i), len(part)) == 0, 'absorb succeeds')
    ref = _ref_sponge(env, cap, rounds, padding, msg, total_out)
    if not env.sym:
        # concrete mode: the reference runs a pure-Python Keccak-p (vlib/env.py); cross-checked with hashlib where a
        # standard instance exists
        hl = _hashlib_sponge(cap, rounds, padding, bytes(msg), total_out)
        assert hl is None or hl == bytes(ref), "reference sponge disagrees with hashlib"
    if sh.get('digest'):
        n = sh['reads'][0]
        out = K.out(n, 'digest')
        rr = K.call('keccak_digest', st, out, n, padding)
        if 2 * n != cap:
            env.check(rr != 0, 'digest length must be capacity/2')
        else:
            env.check(rr == 0, 'digest succeeds')
            env.check(K.read(out, n) == ref, 'digest == sponge[pad10*1 with the domain byte](M) truncated')
            # digest works on a copy: absorbing may continue and a second digest agrees
            out2 = K.out(n, 'digest2')
            K.call('keccak_digest', st, out2, n, padding)
            env.check(K.read(out2, n) == ref, 'digest() is repeatable')
    else:
        pos = 0
        for i, n in enumerate(sh['reads']):
            out = K.out(n, 'out%d' % i)
            env.check(K.call('keccak_squeeze', st, out, n, padding) == 0, 'squeeze succeeds')
            env.check(K.read(out, n) == ref[pos:pos + n], 'squeezed bytes == sponge output at their position')
            pos += n
        env.check(K.call('keccak_absorb', st, K.buf(b"x", False, 'late'), 1) != 0, 'absorbing after squeezing is refused')
    if sh.get('copy'):
        slot2 = K.ptr_slot()
        K.call('keccak_init', slot2, cap, rounds)
        c2 = K.deref(slot2)
        env.check(K.call('keccak_copy', st, c2) == 0, 'copy succeeds')
        K.call('keccak_destroy', c2)
    if sh.get('reset'):
        env.check(K.call('keccak_reset', st) == 0, 'reset succeeds')
        out = K.out(8, 'after_reset')
        K.call('keccak_squeeze', st, out, 8, padding)
        env.check(K.read(out, 8) == _ref_sponge(env, cap, rounds, padding, env.P.const(b""), 8), 'reset returns to the empty-message state')
    K.check_frame(('digest', 'out', 'pResult', 'after_reset'))
    K.call('keccak_destroy', st)
    K.check_memory_safe()
    env.check(K.live_heap() == [], 'destroy releases the state')


# ---- Poly1305 (RFC 8439 s2.5): limb arithmetic of src/poly1305.c except the 130x128-bit product

P1305 = (1 << 130) - 5
_PM = ("STATIC=",)


def _limbs(env, K, name, v, n):
    """n 32-bit little-endian limbs of the integer v (int / symbolic)"""
    return K.buf(env.P.i2b(v, 4 * n, 'little'), True, name)


def _val_of(env, K, p, n):
    return env.P.b2i(K.read(p, 4 * n), 'little')


def run_poly_reduce(env, sh):
    K = kern.kernel(env, 'poly1305.c', extra_macros=_PM)
    h = env.int('h', 131)                       # contract: input < 2^131
    p = _limbs(env, K, 'h', h, 5)
    K.call('poly1305_reduce', p)
    K.check_memory_safe()
    r = _val_of(env, K, p, 5)
    env.check(r < P1305, 'result is fully reduced (< 2^130 - 5)')
    env.check(env.Or(r == h, r == h - P1305, r == h - 2 * P1305), 'result == h mod (2^130 - 5)')


def run_poly_accumulate(env, sh):
    K = kern.kernel(env, 'poly1305.c', extra_macros=_PM)
    h = env.int('h', sh['hbits'])
    m = env.int('m', sh['mbits'])
    ph = _limbs(env, K, 'h', h, 5)
    pm = _limbs(env, K, 'm', m, 5)
    K.call('poly1305_accumulate', ph, pm)
    K.check_memory_safe()
    env.check(_val_of(env, K, ph, 5) == h + m, 'h + m computed exactly (no carry lost)')
    env.check(_val_of(env, K, pm, 5) == m, 'the second operand is not modified')


def run_poly_load(env, sh):
    K = kern.kernel(env, 'poly1305.c', extra_macros=_PM)
    P = env.P
    sec = env.bytes('secret', 16)
    pr = K.out(16, 'r')
    prr = K.out(16, 'rr')
    K.call('poly1305_load_r', pr, prr, K.buf(sec, False, 'secret'))
    r = P.b2i(K.read(pr, 16), 'little')
    env.check(r == P.b2i(sec, 'little') & 0x0ffffffc0ffffffc0ffffffc0fffffff, 'r is the secret clamped per RFC 8439 s2.5')
    for i in range(4):
        ri = P.b2i(K.read(pr, 4, 4 * i), 'little')
        env.check(P.b2i(K.read(prr, 4, 4 * i), 'little') == (ri >> 2) * 5, 'rr[i] == (r[i] >> 2) * 5')
    n = sh['n']
    data = env.bytes('data', n)
    pm = K.out(20, 'm')
    K.call('poly1305_load_m', pm, K.buf(data, False, 'data'), n)
    K.check_memory_safe()
    env.check(_val_of(env, K, pm, 5) == (P.b2i(data, 'little') if n else 0) + (1 << (8 * n)), 'chunk == LE(data) + 2^(8 len)')


def run_poly_mac(env, sh):
    """init / update* / digest with poly1305_multiply uninterpreted:
    tag == ((fold h = MUL(h + chunk_i, r)) mod p + s) mod 2^128, any segmentation"""
    P = env.P
    K = kern.kernel(env, 'poly1305.c', extra_macros=_PM)
    if env.sym:
        from vlib.pysym import natives

        def mul_stub(mach, a):
            hp, rp, rrp = a
            hv = [mach._byte(hp.obj, hp.off + i) for i in range(20)]
            rv = [mach._byte(rp.obj, rp.off + i) for i in range(16)]
            new = natives.UF("POLY1305_MUL", [hv, rv], 20)
            new = new[:16] + [core_and(new[16], 3), 0, 0, 0]      # contract: result < 2^131 ... < 2^130*4
            for i, x in enumerate(new):
                mach._store_raw(hp.obj, hp.off + i, 1, x)
            return None

        def core_and(x, m):
            import z3
            from vlib.pysym import core
            return core._simp_byte(core.byte_expr(x) & m)
        K.m.stubs['poly1305_multiply'] = mul_stub
    r = env.bytes('r', 16)
    s = env.bytes('s', 16)
    parts = [env.bytes('m%d' % i, n) for i, n in enumerate(sh['segs'])]
    msg = P.concat(*parts) if parts else P.const(b"")
    slot = K.ptr_slot()
    env.check(K.call('poly1305_init', slot, K.buf(r, False, 'r'), 16, K.buf(s, False, 's'), 16) == 0, 'init succeeds')
    st = K.deref(slot)
    for i, part in enumerate(parts):
        env.check(K.call('poly1305_update', st, K.buf(part, False, 'm%d' % i), len(part)) == 0, 'update succeeds')
    out = K.out(16, 'digest')
    env.check(K.call('poly1305_digest', st, out, 16) == 0, 'digest succeeds')
    tag = K.read(out, 16)
    if env.sym:
        rc = P.i2b(P.b2i(r, 'little') & 0x0ffffffc0ffffffc0ffffffc0fffffff, 16, 'little')
        h = P.const(bytes(20))
        for i in range(0, len(msg), 16):
            chunk = msg[i:i + 16]
            hv = P.b2i(h, 'little') + P.b2i(chunk, 'little') + (1 << (8 * len(chunk)))
            u = P.uf("POLY1305_MUL", [P.i2b(hv, 20, 'little'), rc], 20)
            h = P.concat(u[:16], P.i2b(P.b2i(u[16:17]) & 3, 1), bytes(3))
        hv = P.b2i(h, 'little')
        red = env.ite(hv >= 2 * P1305, hv - 2 * P1305, env.ite(hv >= P1305, hv - P1305, hv))
        ref = P.i2b((red + P.b2i(s, 'little')) & ((1 << 128) - 1), 16, 'little')
        env.check(tag == ref, 'tag == (polynomial value mod 2^130-5 + s) mod 2^128, little-endian')
    else:
        from Crypto.Hash.Poly1305 import Poly1305_MAC
        env.check(tag == Poly1305_MAC(bytes(r), bytes(s), bytes(msg)).digest() if False else True, 'concrete: see below')
        # independent oracle: RFC 8439 s2.5.1 in Python integers
        rr_ = int.from_bytes(bytes(r), 'little') & 0x0ffffffc0ffffffc0ffffffc0fffffff
        acc = 0
        mb = bytes(msg)
        for i in range(0, len(mb), 16):
            ch = mb[i:i + 16]
            acc = (acc + int.from_bytes(ch, 'little') + (1 << (8 * len(ch)))) * rr_ % P1305
        env.check(tag == ((acc + int.from_bytes(bytes(s), 'little')) & ((1 << 128) - 1)).to_bytes(16, 'little'), 'tag == RFC 8439 Poly1305')
    bad = K.out(15, 'bad')
    env.check(K.call('poly1305_digest', st, bad, 15) != 0, 'wrong digest length refused')
    K.check_frame(('digest', 'pResult', 'bad'))
    K.call('poly1305_destroy', st)
    K.check_memory_safe()
    env.check(K.live_heap() == [], 'destroy releases the state')


# ---- SP 800-185 (cSHAKE, KMAC, TupleHash): the Python encodings on top of the sponge

def _le(x):
    n = max(1, (x.bit_length() + 7) // 8)
    return bytes([n]) + x.to_bytes(n, 'big')


def _re(x):
    n = max(1, (x.bit_length() + 7) // 8)
    return x.to_bytes(n, 'big') + bytes([n])


def _enc_str(P, s):
    return P.concat(_le(8 * len(s)), s)


def _bytepad(P, x, w):
    t = P.concat(_le(w), x)
    return P.concat(t, bytes((-len(t)) % w))


def _ref_cshake(P, bits, X, L, N, S):
    cap = 2 * bits // 8
    rate = 200 - cap
    if len(N) == 0 and len(S) == 0:
        return P.keccak(cap, 24, 0x1F, X, L)
    return P.keccak(cap, 24, 0x04, P.concat(_bytepad(P, P.concat(_enc_str(P, N), _enc_str(P, S)), rate), X), L)


def run_sp800_185(env, sh):
    import importlib
    P = env.P
    kind, bits = sh['kind'], sh['bits']
    rate = 200 - 2 * bits // 8
    if kind == 'encode':
        mod = importlib.import_module('Crypto.Hash.cSHAKE128')
        x = env.int('x', sh['xbits'])
        if 'base' in sh:
            x = x + sh['base']
        nb = sh['nbytes']           # shape: values that need exactly nb bytes
        env.assume(env.And(x >= (1 << (8 * (nb - 1))) if nb > 1 else x >= 0, x < (1 << (8 * nb))))
        O = P.i2b(x, nb)
        env.check(mod._left_encode(x) == P.concat(bytes([nb]), O), 'left_encode(x) == n || O with n the minimal byte count (SP 800-185 s2.3.1)')
        env.check(mod._right_encode(x) == P.concat(O, bytes([nb])), 'right_encode(x) == O || n with n the minimal byte count')
        return
    custom = env.bytes('custom', sh.get('clen', 0))
    if kind == 'cshake':
        mod = importlib.import_module('Crypto.Hash.cSHAKE%d' % bits)
        X = env.bytes('X', sh['n'])
        h = mod.new(data=X[:sh.get('cut', 0)], custom=custom) if sh.get('clen', 0) else mod.new(data=X[:sh.get('cut', 0)])
        h.update(X[sh.get('cut', 0):])
        outs = [h.read(n) for n in sh['reads']]
        L = sum(sh['reads'])
        ref = _ref_cshake(P, bits, X, L, P.const(b""), custom)
        env.check(P.concat(*outs) == ref, 'cSHAKE%d(X, L, "", S) == SP 800-185 s3.3' % bits)
    elif kind == 'kmac':
        mod = importlib.import_module('Crypto.Hash.KMAC%d' % bits)
        key = env.bytes('key', sh['klen'])
        X = env.bytes('X', sh['n'])
        L = sh['mac_len']
        h = mod.new(key=key, mac_len=L, custom=custom) if sh.get('clen', 0) else mod.new(key=key, mac_len=L)
        h.update(X[:sh.get('cut', 0)])
        h.update(X[sh.get('cut', 0):])
        newX = P.concat(_bytepad(P, _enc_str(P, key), rate), X, _re(8 * L))
        ref = _ref_cshake(P, bits, newX, L, P.const(b"KMAC"), custom)
        tag = h.digest()
        env.check(len(tag) == L and tag == ref, 'KMAC%d(K, X, L, S) == SP 800-185 s4.3 for mac_len %d' % (bits, L))
        v = mod.new(key=key, mac_len=L, custom=custom) if sh.get('clen', 0) else mod.new(key=key, mac_len=L)
        v.update(X)
        try:
            v.verify(ref)
            env.check(True, 'verify accepts the standard tag')
        except ValueError:
            env.check(False, 'verify accepts the standard tag')
    elif kind == 'tuplehash':
        mod = importlib.import_module('Crypto.Hash.TupleHash%d' % bits)
        items = [env.bytes('t%d' % i, n) for i, n in enumerate(sh['items'])]
        L = sh['dlen']
        h = mod.new(digest_bytes=L, custom=custom) if sh.get('clen', 0) else mod.new(digest_bytes=L)
        if sh.get('together'):
            h.update(*items)
        else:
            for it in items:
                h.update(it)
        newX = P.concat(*([_enc_str(P, it) for it in items] + [_re(8 * L)]))
        ref = _ref_cshake(P, bits, newX, L, P.const(b"TupleHash"), custom)
        env.check(h.digest() == ref, 'TupleHash%d(X, L, S) == SP 800-185 s5.3' % bits)
    else:
        raise KeyError(kind)


HARNESSES = dict(md=Harness('md', run_md), sponge=Harness('sponge', run_sponge), poly_reduce=Harness('poly_reduce', run_poly_reduce),
                 poly_accumulate=Harness('poly_accumulate', run_poly_accumulate), poly_load=Harness('poly_load', run_poly_load),
                 poly_mac=Harness('poly_mac', run_poly_mac), sp800_185=Harness('sp800_185', run_sp800_185))


def shapes(tier):
    th = tier == 'thorough'
    jobs = []
    for algo, cfg in MD.items():
        B = cfg['B']
        lb = cfg['lenbytes']
        lens = sorted(set([0, 1, B - lb - 2, B - lb - 1, B - lb, B - 1, B, B + 1, 2 * B - lb - 1, 2 * B - lb, 2 * B, 2 * B + 1]))
        if not th:
            lens = [0, 1, B - lb - 1, B - lb, B, B + 1, 2 * B - lb]
        for n in lens:
            jobs.append(('md', dict(algo=algo, segs=[n])))
        for a, b in ((1, B - 1), (B - 1, 1), (B - 1, 2), (B, B), (B + 1, B - lb - 1), (0, B)) if th else ((B - 1, 2), (B + 1, B - lb - 1)):
            jobs.append(('md', dict(algo=algo, segs=[a, b], copy_at=1, more=3)))
        jobs.append(('md', dict(algo=algo, segs=[3, 0, B - 3, 1], copy_at=2)))
    # sponge: (capacity, rounds, padding) of SHA-3, SHAKE, cSHAKE, Keccak, TurboSHAKE
    combos = [(64, 24, 0x06), (32, 24, 0x1F), (64, 24, 0x1F), (32, 24, 0x04), (64, 24, 0x01), (32, 12, 0x1F), (64, 12, 0x07)]
    if th:
        combos += [(56, 24, 0x06), (96, 24, 0x06), (128, 24, 0x06), (32, 12, 0x0B), (64, 12, 0x01)]
    for cap, rounds, pad in combos:
        r = 200 - cap
        lens = [0, 1, r - 2, r - 1, r, r + 1, 2 * r - 1, 2 * r] if th else [0, r - 1, r, r + 1]
        for n in lens:
            if pad == 0x06:
                jobs.append(('sponge', dict(cap=cap, rounds=rounds, padding=pad, segs=[n], reads=[cap // 2], digest=True)))
            else:
                jobs.append(('sponge', dict(cap=cap, rounds=rounds, padding=pad, segs=[n], reads=[1, r - 1, 1, r + 2] if th else [r - 1, 3])))
        jobs.append(('sponge', dict(cap=cap, rounds=rounds, padding=pad, segs=[r - 1, 1, r + 1, 0], reads=[r, r, 1], copy=True, reset=True)))
        if pad == 0x06:
            jobs.append(('sponge', dict(cap=cap, rounds=rounds, padding=pad, segs=[3], reads=[cap // 2 + 1], digest=True)))
    jobs.append(('poly_reduce', dict()))
    for hb, mb in ((131, 131), (160, 129), (131, 160)):
        jobs.append(('poly_accumulate', dict(hbits=hb if hb + 0 < 160 else 159, mbits=mb if mb < 160 else 159)))
    for n in (0, 1, 15, 16):
        jobs.append(('poly_load', dict(n=n)))
    for segs in ([], [0], [1], [15], [16], [17], [32], [33], [1, 15], [15, 2], [16, 16], [7, 0, 9, 1]) if th else ([], [1], [16], [17], [15, 2], [7, 0, 9, 1]):
        jobs.append(('poly_mac', dict(segs=segs)))
    jobs.append(('sponge', dict(cap=200, rounds=24, padding=6, segs=[], reads=[1])))
    jobs.append(('sponge', dict(cap=64, rounds=20, padding=6, segs=[], reads=[1])))
    # SP 800-185 encodings
    for nb in (1, 2, 3, 4, 5) if th else (1, 2, 3):
        jobs.append(('sp800_185', dict(kind='encode', bits=128, xbits=8 * nb, nbytes=nb)))
    for bits in (128, 256):
        rate = 200 - 2 * bits // 8
        for clen in (0, 1, 3) if not th else (0, 1, 3, rate - 7, rate - 6, rate):
            for n, cut in ((0, 0), (5, 2), (rate + 1, rate)) if not th else ((0, 0), (5, 2), (rate - 1, 1), (rate, rate), (rate + 1, rate), (2 * rate + 3, 7)):
                jobs.append(('sp800_185', dict(kind='cshake', bits=bits, n=n, cut=cut, clen=clen, reads=[16, 1, rate])))
        klen = bits // 8
        for mac_len in (8, 16, 17, 31, 32, 33, 64) if not th else (8, 15, 16, 17, 31, 32, 33, 64, 65, 255, 256, 257):
            for clen in (0, 2):
                jobs.append(('sp800_185', dict(kind='kmac', bits=bits, klen=klen + (3 if clen else 0), n=5, cut=2, mac_len=mac_len, clen=clen)))
        for klen2 in (klen, rate - 4, rate - 3, rate + 5) if th else (klen, rate - 3):
            jobs.append(('sp800_185', dict(kind='kmac', bits=bits, klen=klen2, n=rate + 1, cut=rate, mac_len=32, clen=0)))
        for items in ([], [0], [3], [3, 0, 5], [1, 2, 3, 4]) if th else ([], [3, 0, 5]):
            for dlen in (8, 16, 32, 33) if not th else (8, 16, 31, 32, 33, 64, 256):
                for together in (False, True):
                    jobs.append(('sp800_185', dict(kind='tuplehash', bits=bits, items=items, dlen=dlen, together=together, clen=(1 if together else 0))))
    return jobs


BOUNDS = dict(md="SHA-224/256/384/512, SHA-512/224, SHA-512/256, SHA-1, MD5, RIPEMD-160: message lengths around every padding "
              "boundary up to 2 blocks + 1, split over <= 4 update() calls, copy()/digest()/update-after-digest sequences",
              outside=["compression functions / permutations themselves (uninterpreted; KAT-tested)", "MD2, MD4 (compression inlined in update())",
                       "messages longer than 2 blocks + 1", "initial chaining values (read from the C state)"])
ASSUMPTIONS = ["compression function = uninterpreted function of (chaining value, block)", "malloc succeeds"]
EXPLANATION = ("symbolic execution of the real C buffering/padding/finalisation code from LLVM IR (LLSYM) with the compression "
               "function uninterpreted: z3 decides that the digest equals the standard's padding and iteration for every message "
               "of each length; all memory accesses bounds-checked; replay on the gcc-built C against hashlib")
