"""C13 -- encoding layers: bijective on valid data, total and strict on arbitrary bytes.

Engine: PYSYM on the real Util/asn1.py, Util/Padding.py, Util/number.py, IO/PKCS8.py, IO/_PBES.py and
the RSA/DSA/ECC import cascades.  One shape = one input length; every byte of the input is a solver
variable, so each shape covers all 256^N byte strings of that length.
Oracles: an independent strict TLV reader / minimal DER writer (X.690 8.1.3, 8.3, 10.1) below.
"""
from vlib.env import Harness


def _asn1():
    from Crypto.Util import asn1
    return asn1


CLASSES = ('DerObject', 'DerInteger', 'DerBoolean', 'DerSequence', 'DerOctetString', 'DerNull',
           'DerObjectId', 'DerBitString', 'DerSetOf')


# ---- independent reference: strict definite-length TLV

class RefReject(Exception):
    pass


def ref_tlv(data, pos=0):
    """-> (tag, content_start, content_end).  Raises RefReject unless data[pos:] starts with a TLV whose
    length is definite, minimal and inside the buffer.  Works on bytes or symbolic bytes (forks)."""
    n = len(data)
    if pos + 2 > n:
        raise RefReject("truncated header")
    tag = data[pos]
    l0 = data[pos + 1]
    if l0 < 128:
        start = pos + 2
        length = l0
    else:
        k = l0 & 127
        if k == 0:
            raise RefReject("indefinite length")
        k = int(k) if isinstance(k, int) else k.__index__()
        if pos + 2 + k > n:
            raise RefReject("truncated length")
        length = 0
        for i in range(k):
            length = length * 256 + data[pos + 2 + i]
        if data[pos + 2] == 0:
            raise RefReject("leading zero in length")
        if length < 128:
            raise RefReject("long form for a short length")
        start = pos + 2 + k
    if start + length > n:
        raise RefReject("truncated content")
    length = length if isinstance(length, int) else length.__index__()
    return tag, start, start + length


def ref_len(n):
    if n < 128:
        return bytes([n])
    e = n.to_bytes((n.bit_length() + 7) // 8, 'big')
    return bytes([0x80 | len(e)]) + e


def ref_int_content(P, v, nbytes):
    """minimal two's complement of v in exactly nbytes (caller guarantees it fits minimally)"""
    return P.i2b(v & ((1 << (8 * nbytes)) - 1), nbytes)


def _min_len_cases(env, v, maxbytes):
    """yields (cond, nbytes): nbytes is the minimal two's-complement length of v"""
    out = []
    for k in range(1, maxbytes + 1):
        lo, hi = -(1 << (8 * k - 1)), (1 << (8 * k - 1)) - 1
        fits = env.And(v >= lo, v <= hi)
        if k == 1:
            out.append((fits, k))
        else:
            plo, phi = -(1 << (8 * (k - 1) - 1)), (1 << (8 * (k - 1) - 1)) - 1
            out.append((env.And(fits, env.Or(v < plo, v > phi)), k))
    return out


# ---- harnesses

def run_der_decode(env, sh):
    asn1 = _asn1()
    if 'body' in sh:
        # symbolic identifier/length octets in front of a concrete body: reaches the long-form
        # boundaries (127/128, 255/256) that all-symbolic short inputs cannot
        data = env.P.concat(env.bytes('hdr', sh['n']), bytes(sh['body']))
    else:
        data = env.bytes('data', sh['n'])
    obj = getattr(asn1, sh['cls'])()
    try:
        obj.decode(data, strict=sh['strict'])
        accepted = True
    except ValueError:
        accepted = False
    except Exception as e:      # noqa: BLE001  (PYSYM control exceptions are BaseException)
        env.check(False, 'decode raises only ValueError (got %s)' % type(e).__name__)
        return
    if not accepted:
        env.check(True, 'rejected with the documented exception')
        return
    # strictness: what was accepted is exactly one well-formed TLV covering the whole input
    try:
        tag, s, e = ref_tlv(data)
    except RefReject as r:
        env.check(False, 'accepted input is not a definite minimal-length TLV (%s)' % r)
        return
    env.check(e == len(data), 'no bytes trail the DER structure')
    if sh['cls'] in ('DerSequence', 'DerSetOf'):
        # members are themselves well-formed TLVs tiling the content exactly
        pos = s
        while pos < e:
            try:
                _, ms, me = ref_tlv(data[:e], pos)
            except RefReject as r:
                env.check(False, 'accepted member is not a definite minimal-length TLV (%s)' % r)
                return
            pos = me
        env.check(pos == e, 'members tile the content exactly')
    if sh['cls'] in ('DerObject', 'DerOctetString'):
        env.check(obj.payload == data[s:e], 'payload is the content octets')
        env.check(obj.encode() == data, 're-encoding reproduces the input (canonical)')


def run_der_int_rt(env, sh):
    asn1 = _asn1()
    P = env.P
    bits = sh['bits']
    v = env.int('v', bits, signed=True)
    enc = asn1.DerInteger(v).encode()
    n = len(enc) - 2
    # independent minimal writer
    lo, hi = -(1 << (8 * n - 1)), (1 << (8 * n - 1)) - 1
    env.check(env.And(v >= lo, v <= hi), 'content length suffices')
    if n > 1:
        plo, phi = -(1 << (8 * (n - 1) - 1)), (1 << (8 * (n - 1) - 1)) - 1
        env.check(env.Or(v < plo, v > phi), 'content length is minimal')
    env.check(enc == P.concat(b"\x02", ref_len(n), ref_int_content(P, v, n)), 'encode == minimal DER INTEGER')
    for strict in (False, True):
        back = asn1.DerInteger().decode(enc, strict=strict)
        env.check(back.value == v, 'decode(encode(v)) == v')


def run_der_seq_rt(env, sh):
    asn1 = _asn1()
    vals = [env.int('v%d' % i, b, signed=True) for i, b in enumerate(sh['bits'])]
    seq = asn1.DerSequence(list(vals))
    enc = seq.encode()
    back = asn1.DerSequence().decode(enc, strict=True)
    env.check(len(back) == len(vals), 'same number of members')
    for a, b in zip(vals, list(back)):
        env.check(a == b, 'member value preserved')
    _, s, e = ref_tlv(enc)
    env.check(e == len(enc), 'sequence encoding is one exact TLV')


def run_der_octets_rt(env, sh):
    asn1 = _asn1()
    P = env.P
    n = sh['n']
    k = min(n, sh.get('symbolic', 4))
    payload = P.concat(env.bytes('head', k), bytes(n - k))
    for cls, tag in (('DerOctetString', 4),):
        enc = getattr(asn1, cls)(payload).encode()
        env.check(enc == P.concat(bytes([tag]), ref_len(n), payload), 'encode == tag || minimal length || payload')
        back = getattr(asn1, cls)().decode(enc, strict=True)
        env.check(back.payload == payload, 'decode(encode(x)) == x')
    bs = asn1.DerBitString(payload).encode()
    env.check(bs == P.concat(b"\x03", ref_len(n + 1), b"\x00", payload), 'BIT STRING encoding')
    env.check(asn1.DerBitString().decode(bs, strict=True).value == payload, 'BIT STRING round trip')


def run_pad_rt(env, sh):
    from Crypto.Util import Padding
    data = env.bytes('data', sh['n'])
    bs, style = sh['bs'], sh['style']
    p = Padding.pad(data, bs, style)
    env.check(len(p) % bs == 0 and len(p) > len(data) and len(p) - len(data) <= bs, 'padded length')
    env.check(p[:len(data)] == data, 'data is a prefix of the padded string')
    back = Padding.unpad(p, bs, style)
    env.check(back == data, 'unpad(pad(x)) == x')


def _ref_unpad_ok(env, data, bs, style):
    """-> list of (cond, k) : style defines the padding iff exactly the k-byte suffix matches"""
    n = len(data)
    out = []
    for k in range(1, min(bs, n) + 1):
        suf = data[n - k:]
        if style == 'pkcs7':
            c = suf == bytes([k]) * k
        elif style == 'x923':
            c = suf == bytes(k - 1) + bytes([k])
        else:
            c = suf == b"\x80" + bytes(k - 1)
        out.append((c, k))
    return out


def run_unpad(env, sh):
    from Crypto.Util import Padding
    data = env.bytes('data', sh['n'])
    bs, style = sh['bs'], sh['style']
    try:
        r = Padding.unpad(data, bs, style)
        ok = True
    except ValueError:
        ok = False
    except Exception as e:      # noqa: BLE001
        env.check(False, 'unpad raises only ValueError (got %s)' % type(e).__name__)
        return
    cases = _ref_unpad_ok(env, data, bs, style) if (sh['n'] and sh['n'] % bs == 0) else []
    if ok:
        k = len(data) - len(r)
        env.check(r == data[:len(r)], 'result is a prefix of the input')
        env.check(env.Or(*[env.And(c, kk == k) for c, kk in cases]) if cases else False,
                  'accepted => the input ends with the padding the style defines for the removed length')
    else:
        env.check(env.Not(env.Or(*[c for c, _ in cases])) if cases else True,
                  'rejected => no suffix is a padding the style defines')


def run_l2b(env, sh):
    from Crypto.Util import number
    v = env.int('v', sh['bits'])
    bsz = sh['blocksize']
    b = number.long_to_bytes(v, bsz)
    env.check(number.bytes_to_long(b) == v, 'bytes_to_long(long_to_bytes(v)) == v')
    n = len(b)
    if bsz:
        env.check(n % bsz == 0, 'length is a multiple of blocksize')
        if n > bsz:
            env.check(v >= (1 << (8 * (n - bsz))), 'no more blocks than needed')
    else:
        env.check(n >= 1, 'at least one byte')
        if n > 1:
            env.check(v >= (1 << (8 * (n - 1))), 'minimal length')


def run_b2l(env, sh):
    from Crypto.Util import number
    data = env.bytes('data', sh['n'])
    v = number.bytes_to_long(data)
    env.check(v == env.P.b2i(data) if sh['n'] else v == 0, 'bytes_to_long == big-endian value')
    for cls in ('bytearray', 'memoryview'):
        d2 = env.as_bytearray(data) if cls == 'bytearray' else env.as_memoryview(data)
        env.check(number.bytes_to_long(d2) == v, 'same value for %s input' % cls)


_ALLOWED = dict(RSA=(ValueError, IndexError, TypeError), DSA=(ValueError,), ECC=(ValueError,))


def run_import(env, sh):
    import importlib
    mod = importlib.import_module("Crypto.PublicKey." + sh['kind'])
    prefix = bytes.fromhex(sh.get('prefix', ''))
    data = env.P.concat(prefix, env.bytes('data', sh['n'])) if prefix else env.bytes('data', sh['n'])
    env.forbid_default_rng(True)
    try:
        mod.import_key(data)
        env.check(True, 'accepted')
    except _ALLOWED[sh['kind']]:
        env.check(True, 'documented exception')
    except Exception as e:      # noqa: BLE001
        env.check(False, '%s.import_key raises only documented exceptions (got %s)' % (sh['kind'], type(e).__name__))
    finally:
        env.forbid_default_rng(False)


def run_pkcs8_unwrap(env, sh):
    from Crypto.IO import PKCS8
    prefix = bytes.fromhex(sh.get('prefix', ''))
    data = env.P.concat(prefix, env.bytes('data', sh['n'])) if prefix else env.bytes('data', sh['n'])
    try:
        PKCS8.unwrap(data, passphrase=sh.get('passphrase'))
        env.check(True, 'accepted')
    except ValueError:
        env.check(True, 'documented exception')
    except Exception as e:      # noqa: BLE001
        env.check(False, 'PKCS8.unwrap raises only ValueError (got %s)' % type(e).__name__)


# ---- mutations of valid encodings: a window of w bytes of a valid template is symbolic

import json as _json
import os as _os

with open(_os.path.join(_os.path.dirname(_os.path.abspath(__file__)), "templates.json")) as _f:
    TEMPLATES = {k: bytes.fromhex(v) for k, v in _json.load(_f).items()}


def _w(tag, content):
    return bytes([tag]) + ref_len(len(content)) + content


# hand-made PBES1 container (the library only reads this format)
TEMPLATES['pbes1_md5_des'] = _w(0x30, _w(0x30, _w(0x06, bytes.fromhex("2a864886f70d010503")) +
                                         _w(0x30, _w(0x04, b"saltsalt") + _w(0x02, b"\x02"))) +
                                _w(0x04, bytes(range(16))))


def structural_offsets(blob):
    """offsets of every tag/length octet and of short primitive contents (concrete walk)"""
    offs = set()

    def walk(lo, hi, depth):
        pos = lo
        while pos < hi:
            try:
                tag, s, e = ref_tlv(blob[:hi], pos)
            except RefReject:
                return False
            version_like = tag == 2 and e - s == 1 and blob[s] in (0, 1)
            if tag == 2 and not version_like:
                # other INTEGERs are key material / iteration counts, not structure: only their tag
                offs.add(pos)
            else:
                for o in range(pos, s):
                    offs.add(o)
                if e - s <= 3:
                    for o in range(s, e):
                        offs.add(o)
                elif tag == 6:
                    offs.add(s)
                    offs.add(e - 1)
            if tag & 0x20:
                walk(s, e, depth + 1)
            elif tag in (3, 4) and e - s >= 2 and depth < 6:
                st = s + 1 if tag == 3 else s
                if blob[st] in (0x30, 0x02, 0x04):
                    try:
                        _, _, e2 = ref_tlv(blob[:e], st)
                        if e2 == e:
                            walk(st, e, depth + 1)
                    except RefReject:
                        pass
            pos = e
        return True
    walk(0, len(blob), 0)
    return sorted(offs)


_TEMPLATE_API = dict(rsa_pkcs1='RSA', rsa_pkcs8='RSA', rsa_spki='RSA', rsa_pkcs8_pbes2_pbkdf2='RSA:pw',
                     rsa_pkcs8_pbes2_scrypt='RSA:pw', rsa_pkcs8_pbes2_gcm='RSA:pw', dsa_priv='DSA', dsa_pkcs8='DSA',
                     dsa_spki='DSA', ecc_sec1='ECC', ecc_pkcs8='ECC', ecc_spki='ECC', ecc_spki_compressed='ECC',
                     ed25519_pkcs8='ECC', ed25519_spki='ECC', x25519_pkcs8='ECC', x25519_spki='ECC',
                     pbes1_md5_des='PKCS8:pw')


def run_mutate(env, sh):
    import importlib
    t = TEMPLATES[sh['template']]
    off, w = sh['off'], sh['w']
    data = env.P.concat(t[:off], env.bytes('win', w), t[off + w:])
    api = _TEMPLATE_API[sh['template']]
    kind, _, pw = api.partition(':')
    env.concrete_rng(sh.get('seed', 1))
    env.opaque_decryption(True)
    allowed = (ValueError,) if kind == 'PKCS8' else _ALLOWED[kind]
    try:
        if kind == 'PKCS8':
            from Crypto.IO import PKCS8
            PKCS8.unwrap(data, passphrase=pw or None)
        else:
            mod = importlib.import_module("Crypto.PublicKey." + kind)
            mod.import_key(data, passphrase=pw or None)
        env.check(True, 'accepted')
    except allowed:
        env.check(True, 'documented exception')
    except Exception as e:      # noqa: BLE001
        env.check(False, '%s raises only documented exceptions on a mutated %s (got %s)'
                  % (kind, sh['template'], type(e).__name__))
    finally:
        env.concrete_rng(None)
        env.opaque_decryption(False)


# ---- grammar-based ECC key files: valid DER structure, every length of the variable parts, symbolic leaves

_OID_EC = bytes.fromhex("06072a8648ce3d0201")
_OID_CURVE = {'P-256': bytes.fromhex("06082a8648ce3d030107"), 'P-384': bytes.fromhex("06052b81040022"), 'P-521': bytes.fromhex("06052b81040023")}
_OID_ED = {'Ed25519': bytes.fromhex("06032b6570"), 'Ed448': bytes.fromhex("06032b6571"), 'Curve25519': bytes.fromhex("06032b656e"),
           'Curve448': bytes.fromhex("06032b656f")}


def _tlv(P, tag, *parts):
    body = P.concat(*parts) if parts else P.const(b"")
    return P.concat(bytes([tag]) + ref_len(len(body)), body)


def run_struct_import(env, sh):
    """ECC.import_key on well-formed DER whose variable parts (EC point, private scalar, raw key) have every
    length around the expected one and symbolic content: a key or ValueError, never another exception"""
    from Crypto.PublicKey import ECC
    P = env.P
    kind, curve = sh['kind'], sh['curve']
    pt = env.bytes('point', sh.get('plen', 0))
    if sh.get('first') is not None and sh.get('plen', 0) > 0:
        pt = P.concat(bytes([sh['first']]), pt[1:])
    d = env.bytes('d', sh.get('dlen', 0))
    if kind == 'spki':
        alg = _tlv(P, 0x30, _OID_EC, _OID_CURVE[curve])
        blob = _tlv(P, 0x30, alg, _tlv(P, 0x03, b"\x00", pt))
    elif kind in ('sec1', 'pkcs8'):
        parts = [bytes.fromhex("020101"), _tlv(P, 0x04, d)]
        if kind == 'sec1' and sh.get('params', True):
            parts.append(_tlv(P, 0xA0, _OID_CURVE[curve]))
        if sh.get('pub', True):
            parts.append(_tlv(P, 0xA1, _tlv(P, 0x03, b"\x00", pt)))
        inner = _tlv(P, 0x30, *parts)
        if kind == 'sec1':
            blob = inner
        else:
            blob = _tlv(P, 0x30, bytes.fromhex("020100"), _tlv(P, 0x30, _OID_EC, _OID_CURVE[curve]), _tlv(P, 0x04, inner))
    elif kind == 'xspki':
        blob = _tlv(P, 0x30, _tlv(P, 0x30, _OID_ED[curve]), _tlv(P, 0x03, b"\x00", pt))
    elif kind == 'xpkcs8':
        blob = _tlv(P, 0x30, bytes.fromhex("020100"), _tlv(P, 0x30, _OID_ED[curve]), _tlv(P, 0x04, _tlv(P, 0x04, d)))
    else:
        raise KeyError(kind)
    env.concrete_rng(11)       # curve set-up and scalar blinding draw from the default RNG: fixed stream
    try:
        ECC.import_key(blob)
        env.check(True, 'accepted')
    except ValueError:
        env.check(True, 'documented exception')
    except Exception as e:      # noqa: BLE001
        env.check(False, 'ECC.import_key raises only ValueError on well-formed DER with odd part lengths (got %s)' % type(e).__name__)
    finally:
        env.concrete_rng(None)


HARNESSES = dict(
    mutate=Harness('mutate', run_mutate, max_paths=3000, concretize_cap=300),
    der_decode=Harness('der_decode', run_der_decode, max_paths=20000),
    der_int_rt=Harness('der_int_rt', run_der_int_rt),
    der_seq_rt=Harness('der_seq_rt', run_der_seq_rt),
    der_octets_rt=Harness('der_octets_rt', run_der_octets_rt),
    pad_rt=Harness('pad_rt', run_pad_rt), unpad=Harness('unpad', run_unpad, max_paths=20000),
    l2b=Harness('l2b', run_l2b), b2l=Harness('b2l', run_b2l),
    import_key=Harness('import_key', run_import, max_paths=20000),
    pkcs8_unwrap=Harness('pkcs8_unwrap', run_pkcs8_unwrap, max_paths=20000),
    struct_import=Harness('struct_import', run_struct_import, max_paths=20000),
)


# 2-byte windows that do not finish within the thorough budget (measured): the iteration count of the PBKDF2 parameters
_SLOW_WINDOWS = {('rsa_pkcs8_pbes2_gcm', 44)}


def shapes(tier):
    th = tier == 'thorough'
    jobs = []
    nmax = 7 if th else 5
    for cls in CLASSES:
        for n in range(0, nmax + 1):
            for strict in (False, True):
                jobs.append(('der_decode', dict(cls=cls, n=n, strict=strict)))
    for cls in (CLASSES if th else ('DerObject', 'DerOctetString', 'DerSequence', 'DerBitString')):
        for body in ((0, 1, 125, 126, 127, 128, 129, 253, 254, 255, 256, 257, 258) if th else (126, 127, 128, 255, 256)):
            for n in (2, 3, 4):
                if n == 4 and cls in ('DerSequence', 'DerSetOf'):
                    continue        # the 4th symbolic octet becomes a member header: 256-way member parsing
                jobs.append(('der_decode', dict(cls=cls, n=n, body=body, strict=True)))
                if th:
                    jobs.append(('der_decode', dict(cls=cls, n=n, body=body, strict=False)))
    for bits in ((1, 7, 8, 9, 15, 16, 17, 24, 31, 32, 33, 40) if th else (8, 9, 16, 17, 33)):
        jobs.append(('der_int_rt', dict(bits=bits)))
    for bl in (([8], [9, 17], [8, 16, 33], [17, 1, 9]) if th else ([9, 17], [8, 16, 9])):
        jobs.append(('der_seq_rt', dict(bits=bl)))
    for n in ((0, 1, 126, 127, 128, 129, 254, 255, 256, 257, 65535, 65536) if th else (0, 1, 127, 128, 255, 256)):
        jobs.append(('der_octets_rt', dict(n=n)))
    for style in ('pkcs7', 'x923', 'iso7816'):
        for bs in ((1, 2, 3, 4, 7, 8, 16) if th else (1, 4, 8)):
            for n in sorted(set([0, 1, bs - 1, bs, bs + 1, 2 * bs])):
                if n >= 0 and n <= (24 if th else 12):
                    jobs.append(('pad_rt', dict(style=style, bs=bs, n=n)))
                    jobs.append(('unpad', dict(style=style, bs=bs, n=n)))
    for bits in ((1, 8, 9, 31, 32, 33, 63, 64, 65, 72) if th else (8, 33, 65)):
        for bsz in ((0, 1, 2, 3, 4, 5, 8, 9) if th else (0, 3, 8)):
            jobs.append(('l2b', dict(bits=bits, blocksize=bsz)))
    for n in ((0, 1, 3, 4, 5, 8, 9) if th else (0, 3, 5)):
        jobs.append(('b2l', dict(n=n)))
    for kind in ('RSA', 'DSA', 'ECC'):
        # (n >= 5: the PEM / OpenSSH text detection of import_key needs concrete bytes at that length: inconclusive, outside)
        for n in range(0, 4 + 1):
            jobs.append(('import_key', dict(kind=kind, n=n)))
        # DER SEQUENCE header fixed, body symbolic
        for n in ((1, 2, 3, 4, 5) if th else (1, 2, 3)):
            jobs.append(('import_key', dict(kind=kind, n=n, prefix='30')))
    for n in range(0, (6 if th else 4) + 1):
        jobs.append(('pkcs8_unwrap', dict(n=n)))
        jobs.append(('pkcs8_unwrap', dict(n=n, passphrase='x')))
    # SEQUENCE headers fixed, bodies symbolic (reaches the encrypted-container decoders with short inputs)
    for prefix, n in (('3004', 4), ('3005', 5), ('30043000', 2), ('30063002', 4)):
        jobs.append(('pkcs8_unwrap', dict(n=n, prefix=prefix, passphrase='x')))
        jobs.append(('pkcs8_unwrap', dict(n=n, prefix=prefix)))
    # grammar-based ECC files
    for curve, n in (('P-256', 32), ('P-521', 66)) if not th else (('P-256', 32), ('P-384', 48), ('P-521', 66)):
        plens = (0, 1, 2, n, n + 1, 2 * n, 2 * n + 1, 2 * n + 2)
        for plen in plens:
            firsts = (None,) if plen == 0 else ((None, 4, 2) if th else (None, 4))
            for first in firsts:
                if plen == n + 1 and first != 4:
                    continue        # compressed points: decompression needs a modular square root of a symbolic value (outside)
                jobs.append(('struct_import', dict(kind='spki', curve=curve, plen=plen, first=first)))
        for kind in ('sec1', 'pkcs8'):
            for dlen in (0, 1, n - 1, n, n + 1):
                jobs.append(('struct_import', dict(kind=kind, curve=curve, dlen=dlen, plen=2 * n + 1, first=4)))
                jobs.append(('struct_import', dict(kind=kind, curve=curve, dlen=dlen, pub=False)))
            for plen in (0, 1, 2 * n, 2 * n + 1):
                jobs.append(('struct_import', dict(kind=kind, curve=curve, dlen=n, plen=plen, first=(4 if plen else None))))
            if kind == 'sec1':
                jobs.append(('struct_import', dict(kind=kind, curve=curve, dlen=n, plen=2 * n + 1, first=4, params=False)))
    for curve, n in (('Ed25519', 32), ('Ed448', 57), ('Curve25519', 32), ('Curve448', 56)):
        for ln in (0, 1, n - 1, n, n + 1):
            if not (curve.startswith('Ed') and ln == n):        # EdDSA point decompression: modular square root (outside)
                jobs.append(('struct_import', dict(kind='xspki', curve=curve, plen=ln)))
            jobs.append(('struct_import', dict(kind='xpkcs8', curve=curve, dlen=ln)))
    for name in sorted(TEMPLATES):
        if name.startswith(('ecc', 'ed25519', 'x25519')) or 'scrypt' in name:
            continue        # need the EC / scrypt native models (added with C06 / C12)
        offs = structural_offsets(TEMPLATES[name])
        if not th:
            offs = offs[:24:2] if 'pbes' not in name else [o for o in offs if o < 130]
        for o in offs:
            if o + 1 <= len(TEMPLATES[name]):
                jobs.append(('mutate', dict(template=name, off=o, w=1)))
            if th and o + 2 <= len(TEMPLATES[name]) and o >= 1 and TEMPLATES[name][o - 1] != 0x82 and (name, o) not in _SLOW_WINDOWS:
                # (a 2-byte window over both octets of a long-form length exceeds the case-split cap: skipped)
                jobs.append(('mutate', dict(template=name, off=o, w=2)))
    return jobs


BOUNDS = dict(der_decoders="every Der* class, strict and lenient, every byte string of length 0..5 (quick) / 0..7 (thorough)",
              integers="|v| < 2^40", padding="block sizes 1..16, data <= 24 bytes, all three styles",
              import_key="RSA/DSA/ECC.import_key on every byte string of length <= 4, and 0x30-prefixed bodies; PKCS8.unwrap on every byte string <= 4 (6) and SEQUENCE-prefixed bodies",
              outside=["inputs longer than the stated lengths", "PEM/OpenSSH text layer on arbitrary text (regex/base64 on symbolic text)",
                       "OID arcs (string formatting of symbolic ints)", "RFC1751"])
ASSUMPTIONS = ["exceptions allowed: ValueError (RSA.import_key also IndexError/TypeError), per the property text"]
VALIDATE = True
EXPLANATION = ("bounded symbolic execution (PYSYM) of the real decoders/encoders with every input byte symbolic per "
               "length; z3 decides totality (only the documented exception types), strictness against an "
               "independent strict TLV reader, and round-trip / canonicity against an independent minimal DER writer")
