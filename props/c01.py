"""C01 -- AEAD decryption accepts exactly the authentic (key, nonce, AAD, ct, tag) tuple.

Engine: PYSYM.  Real classes executed: GcmMode/_GHASH, CcmMode, EaxMode, SivMode/_S2V, OcbMode,
ChaCha20Poly1305Cipher/Poly1305_MAC/ChaCha20Cipher, KWMode, KWPMode, CMAC, EcbMode/CbcMode/CtrMode,
Cipher._create_cipher, number.long_to_bytes/bytes_to_long, strxor, BLAKE2s wrapper.
Uninterpreted: block cipher E/D (bijective per key), GMUL, ChaCha20 block, HChaCha20, Poly1305,
the randomly keyed BLAKE2s comparison (assumed injective on the two compared strings).
"""
import itertools

from vlib.env import Harness
from vlib.models import aead as M

KEYS = (16, 24, 32)


def _mods():
    from Crypto.Cipher import AES, ChaCha20_Poly1305
    return AES, ChaCha20_Poly1305


# -------------------------------------------------------------------------------------------
# per-mode adapters

def _legal(mode, sh):
    k, n, t = sh['klen'], sh['nlen'], sh.get('mac', 16)
    if mode == 'gcm':
        return k in KEYS and n >= 1 and 4 <= t <= 16
    if mode == 'ccm':
        return k in KEYS and 7 <= n <= 13 and t in (4, 6, 8, 10, 12, 14, 16)
    if mode == 'eax':
        return k in KEYS and n >= 1 and 2 <= t <= 16
    if mode == 'siv':
        return k in (32, 48, 64) and (n is None or n >= 1)
    if mode == 'ocb':
        return k in KEYS and 1 <= n <= 15 and 8 <= t <= 16
    if mode == 'chacha':
        return k == 32 and n in (8, 12, 24)
    raise KeyError(mode)


def _new(mode, key, nonce, sh):
    AES, CP = _mods()
    if mode == 'gcm':
        return AES.new(key, AES.MODE_GCM, nonce=nonce, mac_len=sh['mac'])
    if mode == 'ccm':
        kw = {}
        if sh.get('declare'):
            kw = dict(msg_len=sh['dlen'], assoc_len=sh['alen'])
        return AES.new(key, AES.MODE_CCM, nonce=nonce, mac_len=sh['mac'], **kw)
    if mode == 'eax':
        return AES.new(key, AES.MODE_EAX, nonce=nonce, mac_len=sh['mac'])
    if mode == 'siv':
        if nonce is None:
            return AES.new(key, AES.MODE_SIV)
        return AES.new(key, AES.MODE_SIV, nonce=nonce)
    if mode == 'ocb':
        return AES.new(key, AES.MODE_OCB, nonce=nonce, mac_len=sh['mac'])
    if mode == 'chacha':
        return CP.new(key=key, nonce=nonce)
    raise KeyError(mode)


def _ref(P, mode, key, nonce, aad, data, sh, decrypt, tag=None):
    """-> (output, expected tag at the configured length)"""
    t = sh.get('mac', 16)
    if mode == 'gcm':
        o, tg = M.gcm(P, 'AES', key, nonce, aad, data, decrypt)
        return o, tg[:t]
    if mode == 'ccm':
        return M.ccm(P, 'AES', key, nonce, aad, data, t, decrypt)
    if mode == 'eax':
        o, tg = M.eax(P, 'AES', key, nonce, aad, data, decrypt)
        return o, tg[:t]
    if mode == 'ocb':
        return M.ocb(P, 'AES', key, nonce, aad, data, t, decrypt)
    if mode == 'chacha':
        return M.chacha20_poly1305(P, key, nonce, aad, data, decrypt)
    raise KeyError(mode)


def _inputs(env, sh, mode):
    key = env.bytes('key', sh['klen'])
    nonce = None if sh['nlen'] is None else env.bytes('nonce', sh['nlen'])
    return key, nonce


def _aad(env, sh):
    k = sh.get('aad_sym')
    if k is None:
        return env.bytes('aad', sh['alen'])
    # long associated data (length-encoding thresholds): k leading symbolic bytes, the rest zero
    return env.P.concat(env.bytes('aad', k), bytes(sh['alen'] - k))


def _feed_aad(ci, aad, sh):
    if len(aad) or sh.get('force_update'):
        cut = sh.get('acut')
        if cut is None:
            ci.update(aad)
        else:
            ci.update(aad[:cut])
            ci.update(aad[cut:])


def _flip(b):
    b = bytearray(b)
    if b:
        b[-1] ^= 1
    return bytes(b)


def run_dec(env, sh):
    """receiver keyed with (key, nonce) is offered an arbitrary (aad, ct, tag)."""
    mode = sh['mode']
    key, nonce = _inputs(env, sh, mode)
    aad = _aad(env, sh)
    ct = env.bytes('ct', sh['dlen'])
    tag = env.bytes('tag', sh['tlen'])
    tags = [tag]
    if not env.sym and _legal(mode, sh):
        # replay: a solver model fixes the tag only relative to its own interpretation of the
        # uninterpreted primitives; with the real primitives also offer the specification tag,
        # a one-bit mutation of it and the tag the library's own sender produces
        _, rt = _ref(env.P, mode, key, nonce, aad, ct, sh, True)
        if len(rt) == sh['tlen']:
            tags += [rt, _flip(rt)]
        try:
            rpt, _ = _ref(env.P, mode, key, nonce, aad, ct, sh, True)
            tx = _new(mode, key, nonce, sh)
            _feed_aad(tx, aad, sh)
            _, st = tx.encrypt_and_digest(rpt)
            if len(st) == sh['tlen']:
                tags.append(st)
        except (ValueError, TypeError):
            pass
    for t in tags:
        _dec_once(env, sh, mode, key, nonce, aad, ct, t)


def _dec_once(env, sh, mode, key, nonce, aad, ct, tag):
    try:
        ci = _new(mode, key, nonce, sh)
    except ValueError:
        env.check(not _legal(mode, sh), 'constructor refuses only illegal parameters')
        return
    env.check(_legal(mode, sh), 'constructor accepts only legal parameters')
    _feed_aad(ci, aad, sh)
    api = sh.get('api', 'dv')
    outmode = sh.get('out')
    try:
        if outmode:
            # caller-supplied output buffer; 'inplace': the output buffer IS the ciphertext buffer
            src = env.as_bytearray(ct)
            dst = src if outmode == 'inplace' else env.as_bytearray(bytes(len(ct)))
            r0 = ci.decrypt_and_verify(src, tag, output=dst)
            pt = env.tobytes(dst)
            if outmode != 'inplace':
                env.check(env.tobytes(src) == ct, 'the input buffer is not modified')
        elif api == 'dv':
            pt = ci.decrypt_and_verify(ct, tag)
        else:
            if mode == 'ocb':
                pt = ci.decrypt(ct) + ci.decrypt()
            else:
                pt = ci.decrypt(ct)
            ci.verify(tag)
        ok = True
    except ValueError:
        ok = False
    ref_pt, ref_tag = _ref(env.P, mode, key, nonce, aad, ct, sh, True)
    env.iff(ok, tag == ref_tag, 'accept iff received tag == specification tag (length included)')
    if ok:
        env.check(pt == ref_pt, 'returned plaintext == specification plaintext')


def run_enc(env, sh):
    """sender output == specification; receiver built from the exposed nonce accepts it."""
    mode = sh['mode']
    key, nonce = _inputs(env, sh, mode)
    aad = _aad(env, sh)
    pt = env.bytes('pt', sh['dlen'])
    ci = _new(mode, key, nonce, sh)
    _feed_aad(ci, aad, sh)
    api = sh.get('api', 'ed')
    outmode = sh.get('out')
    if outmode:
        src = env.as_bytearray(pt)
        dst = src if outmode == 'inplace' else env.as_bytearray(bytes(len(pt)))
        r0, tag = ci.encrypt_and_digest(src, output=dst)
        env.check(r0 is None, 'nothing is returned when output= is given')
        ct = env.tobytes(dst)
    elif api == 'ed':
        ct, tag = ci.encrypt_and_digest(pt)
    else:
        if mode == 'ocb':
            ct = ci.encrypt(pt) + ci.encrypt()
        else:
            ct = ci.encrypt(pt)
        tag = ci.digest()
    ref_ct, ref_tag = _ref(env.P, mode, key, nonce, aad, pt, sh, False)
    env.check(ct == ref_ct, 'ciphertext == specification')
    env.check(tag == ref_tag, 'tag == specification tag truncated to mac_len')
    env.check(ci.nonce == nonce, 'nonce attribute is the nonce in use')
    # round trip through a fresh receiver keyed with what the sender exposes
    rx = _new(mode, key, ci.nonce, sh)
    _feed_aad(rx, aad, sh)
    try:
        back = rx.decrypt_and_verify(ct, tag)
    except ValueError:
        env.check(False, 'authentic message must be accepted')
        return
    env.check(back == pt, 'round trip returns the plaintext')


# ---- SIV (vector AAD, tag is the IV)

def run_siv_dec(env, sh):
    key = env.bytes('key', sh['klen'])
    nonce = None if sh['nlen'] is None else env.bytes('nonce', sh['nlen'])
    comps = [env.bytes('ad%d' % i, n) for i, n in enumerate(sh['comps'])]
    ct = env.bytes('ct', sh['dlen'])
    tag = env.bytes('tag', sh['tlen'])
    offers = [(ct, tag)]
    if not env.sym and _legal('siv', sh) and sh['tlen'] == 16:
        allc = comps + ([nonce] if nonce is not None else [])
        c2, v2 = M.siv_encrypt(env.P, 'AES', key, allc, env.bytes('pt_alt', sh['dlen']))
        offers += [(c2, v2), (c2, _flip(v2))]
        if sh['dlen']:
            offers.append((_flip(c2), v2))
    for c, t in offers:
        _siv_dec_once(env, sh, key, nonce, comps, c, t)


def _siv_dec_once(env, sh, key, nonce, comps, ct, tag):
    try:
        ci = _new('siv', key, nonce, sh)
    except ValueError:
        env.check(not _legal('siv', sh), 'constructor refuses only illegal parameters')
        return
    env.check(_legal('siv', sh), 'constructor accepts only legal parameters')
    for c in comps:
        ci.update(c)
    try:
        pt = ci.decrypt_and_verify(ct, tag)
        ok = True
    except ValueError:
        ok = False
    if sh['tlen'] != 16:
        env.check(not ok, 'tag of wrong length is refused')
        return
    allc = comps + ([nonce] if nonce is not None else [])
    ref_pt, ref_v = M.siv_decrypt(env.P, 'AES', key, allc, ct, tag)
    env.iff(ok, tag == ref_v, 'accept iff S2V(components, nonce, plaintext) == received tag')
    if ok:
        env.check(pt == ref_pt, 'returned plaintext == specification plaintext')


def run_siv_enc(env, sh):
    key = env.bytes('key', sh['klen'])
    nonce = None if sh['nlen'] is None else env.bytes('nonce', sh['nlen'])
    comps = [env.bytes('ad%d' % i, n) for i, n in enumerate(sh['comps'])]
    pt = env.bytes('pt', sh['dlen'])
    ci = _new('siv', key, nonce, sh)
    for c in comps:
        ci.update(c)
    ct, tag = ci.encrypt_and_digest(pt)
    allc = comps + ([nonce] if nonce is not None else [])
    ref_ct, ref_v = M.siv_encrypt(env.P, 'AES', key, allc, pt)
    env.check(ct == ref_ct, 'ciphertext == specification')
    env.check(tag == ref_v, 'tag == S2V output')
    rx = _new('siv', key, nonce, sh)
    for c in comps:
        rx.update(c)
    try:
        back = rx.decrypt_and_verify(ct, tag)
    except ValueError:
        env.check(False, 'authentic message must be accepted')
        return
    env.check(back == pt, 'round trip returns the plaintext')


# ---- KW / KWP

ICV1 = b"\xa6" * 8


def run_kw_unseal(env, sh):
    key = env.bytes('key', sh['klen'])
    ct = env.bytes('ct', sh['dlen'])
    offers = [ct]
    if not env.sym and sh['dlen'] % 8 == 0 and sh['dlen'] >= 24:
        good = M.kw_W(env.P, 'AES', key, ICV1 + env.bytes('pt_alt', sh['dlen'] - 8))
        offers += [good, _flip(good)]
    for c in offers:
        _kw_unseal_once(env, sh, key, c)


def _kw_unseal_once(env, sh, key, ct):
    AES, _ = _mods()
    ci = AES.new(key, AES.MODE_KW)
    legal_len = sh['dlen'] % 8 == 0 and sh['dlen'] >= 24
    try:
        pt = ci.unseal(ct)
        ok = True
    except ValueError:
        ok = False
    if not legal_len:
        env.check(not ok, 'ciphertext of illegal length refused')
        return
    s = M.kw_Winv(env.P, 'AES', key, ct)
    env.iff(ok, s[:8] == ICV1, 'unseal accepts iff the integrity check value is A6..A6')
    if ok:
        env.check(pt == s[8:], 'unsealed key data == W^-1 output')


def run_kw_seal(env, sh):
    AES, _ = _mods()
    key = env.bytes('key', sh['klen'])
    pt = env.bytes('pt', sh['dlen'])
    ci = AES.new(key, AES.MODE_KW)
    legal_len = sh['dlen'] % 8 == 0 and sh['dlen'] >= 16
    try:
        ct = ci.seal(pt)
    except ValueError:
        env.check(not legal_len, 'seal refuses only illegal lengths')
        return
    env.check(legal_len, 'seal accepts only legal lengths')
    env.check(ct == M.kw_W(env.P, 'AES', key, env.P.concat(ICV1, pt)), 'sealed == W(ICV1 || P)')
    back = AES.new(key, AES.MODE_KW).unseal(ct)
    env.check(back == pt, 'round trip')


def run_kwp_unseal(env, sh):
    key = env.bytes('key', sh['klen'])
    ct = env.bytes('ct', sh['dlen'])
    offers = [ct]
    if not env.sym and sh['dlen'] % 8 == 0 and sh['dlen'] >= 16:
        for plen in range(sh['dlen'] - 15, sh['dlen'] - 7):
            if plen >= 1:
                good = M.kwp_wrap(env.P, 'AES', key, env.bytes('pt_alt%d' % plen, plen))
                offers += [good, _flip(good)]
        # non-zero padding / wrong length field under a valid ICV2
        n8 = sh['dlen'] - 8
        for body in (b"\xa6\x59\x59\xa6" + (n8 - 1).to_bytes(4, 'big') + bytes(n8 - 1) + b"\x01",
                     b"\xa6\x59\x59\xa6" + (n8 + 1).to_bytes(4, 'big') + bytes(n8),
                     b"\xa6\x59\x59\xa6" + (n8 - 8).to_bytes(4, 'big', signed=False) + bytes(n8) if n8 >= 8 else None):
            if body is not None:
                offers.append(env.P.E('AES', key, body) if len(body) == 16 else M.kw_W(env.P, 'AES', key, body))
    for c in offers:
        _kwp_unseal_once(env, sh, key, c)


def _kwp_unseal_once(env, sh, key, ct):
    AES, _ = _mods()
    P = env.P
    ci = AES.new(key, AES.MODE_KWP)
    legal_len = sh['dlen'] % 8 == 0 and sh['dlen'] >= 16
    try:
        pt = ci.unseal(ct)
        ok = True
    except ValueError:
        ok = False
    if not legal_len:
        env.check(not ok, 'ciphertext of illegal length refused')
        return
    s = M.kwp_unwrap_S(P, 'AES', key, ct)
    n = len(s) // 8 - 1
    plen = P.b2i(s[4:8])
    # SP 800-38F 6.3 step 4-9: ICV2, 8(n-1) < Plen <= 8n, padding all zero
    good = env.And(s[:4] == b"\xa6\x59\x59\xa6", plen > 8 * (n - 1), plen <= 8 * n)
    if ok:
        env.check(good, 'accepted => ICV2 and Plen in range')
        k = len(pt)
        env.check(plen == k, 'returned length == Plen')
        env.check(pt == s[8:8 + k], 'returned bytes are the leading Plen bytes')
        env.check(s[8 + k:] == bytes(len(s) - 8 - k), 'padding bytes all zero')
    else:
        # rejected: for every candidate length, the spec predicate is false
        conds = []
        for k in range(max(0, 8 * (n - 1) + 1), 8 * n + 1):
            conds.append(env.And(plen == k, s[8 + k:] == bytes(len(s) - 8 - k)))
        env.check(env.Not(env.And(s[:4] == b"\xa6\x59\x59\xa6", env.Or(*conds))),
                  'rejected => specification predicate false')


def run_kwp_seal(env, sh):
    AES, _ = _mods()
    key = env.bytes('key', sh['klen'])
    pt = env.bytes('pt', sh['dlen'])
    ci = AES.new(key, AES.MODE_KWP)
    try:
        ct = ci.seal(pt)
    except ValueError:
        env.check(sh['dlen'] == 0, 'seal refuses only the empty plaintext')
        return
    env.check(sh['dlen'] > 0, 'seal refuses the empty plaintext')
    env.check(ct == M.kwp_wrap(env.P, 'AES', key, pt), 'sealed == KWP-AE(P)')
    back = AES.new(key, AES.MODE_KWP).unseal(ct)
    env.check(back == pt, 'round trip')


HARNESSES = dict(
    dec=Harness('dec', run_dec, budget_s=600), enc=Harness('enc', run_enc, budget_s=600),
    siv_dec=Harness('siv_dec', run_siv_dec), siv_enc=Harness('siv_enc', run_siv_enc),
    kw_unseal=Harness('kw_unseal', run_kw_unseal), kw_seal=Harness('kw_seal', run_kw_seal),
    kwp_unseal=Harness('kwp_unseal', run_kwp_unseal), kwp_seal=Harness('kwp_seal', run_kwp_seal),
)


# -------------------------------------------------------------------------------------------
# shape grids

NONCES = dict(gcm=(1, 8, 11, 12, 13, 16, 17, 32), ccm=(7, 8, 11, 12, 13), eax=(1, 15, 16, 17),
              ocb=(1, 7, 12, 14, 15), chacha=(8, 12, 24))
MACS = dict(gcm=(4, 8, 12, 15, 16), ccm=(4, 6, 8, 10, 12, 14, 16), eax=(2, 4, 8, 15, 16),
            ocb=(8, 12, 15, 16), chacha=(16,))
BAD = dict(gcm=dict(mac=(3, 17), nlen=(0,)), ccm=dict(mac=(2, 5, 18), nlen=(6, 14)),
           eax=dict(mac=(1, 17), nlen=(0,)), ocb=dict(mac=(7, 17), nlen=(0, 16)), chacha=dict(nlen=(7, 16)))
LENS_T = (0, 1, 15, 16, 17, 32, 33)
COMBOS_Q = ((0, 0), (0, 17), (17, 0), (1, 16), (16, 1), (17, 17), (1, 1))


def _mode_jobs(mode, thorough):
    jobs = []
    keys = (32,) if mode == 'chacha' else KEYS
    nonces = NONCES[mode] if thorough else \
        dict(gcm=(1, 12, 16, 17), ccm=(7, 13), eax=(1, 16, 17), ocb=(1, 14, 15), chacha=(8, 12, 24))[mode]
    macs = MACS[mode] if thorough else (MACS[mode][0], MACS[mode][-1])
    full = [(a, d) for a in LENS_T for d in LENS_T]
    for k in keys:
        for n in nonces:
            for t in macs:
                if thorough and k == keys[0] and t in (MACS[mode][0], MACS[mode][-1]):
                    combos = full
                elif k == keys[0] or thorough:
                    combos = COMBOS_Q
                else:
                    combos = ((17, 17),) if (n == nonces[0] and t == macs[-1]) else ()
                for a, d in combos:
                    base = dict(mode=mode, klen=k, nlen=n, mac=t, alen=a, dlen=d)
                    jobs.append(('dec', dict(base, tlen=t)))
                    jobs.append(('enc', dict(base)))
                    if (a, d) in ((0, 0), (17, 17), (1, 16)):
                        for tl in sorted(set([t - 1, t + 1, 0, 16, 17])):
                            if tl >= 0 and tl != t and (thorough or tl in (t - 1, t + 1)):
                                jobs.append(('dec', dict(base, tlen=tl)))
                    if (a, d) in ((17, 17), (1, 16), (0, 17)) and t == macs[-1] and mode in ('gcm', 'ccm', 'eax'):
                        for om in ('inplace', 'fresh'):
                            jobs.append(('dec', dict(base, tlen=t, out=om)))
                            jobs.append(('enc', dict(base, out=om)))
                    if (a, d) in ((17, 17), (1, 16)) and t == macs[-1]:
                        jobs.append(('dec', dict(base, tlen=t, api='sep')))
                        jobs.append(('enc', dict(base, api='sep')))
                        if a >= 16:
                            jobs.append(('dec', dict(base, tlen=t, acut=a - 16)))
                    if mode == 'ccm' and (a, d) in ((17, 17), (0, 17), (17, 0)) and t == macs[-1]:
                        jobs.append(('dec', dict(base, tlen=t, declare=True)))
                        jobs.append(('enc', dict(base, declare=True)))
    for kk, vals in BAD[mode].items():
        for v in vals:
            sh = dict(mode=mode, klen=32, nlen=NONCES[mode][1], mac=MACS[mode][-1], alen=1, dlen=1)
            sh[kk] = v
            jobs.append(('dec', dict(sh, tlen=max(0, sh['mac']))))
    if mode == 'ccm':
        # SP 800-38C A.2.2: the encoding of the AAD length changes at 2^16-2^8 (and 2^32)
        for a in ((65279, 65280, 65281, 65535, 65536) if thorough else (65279, 65280)):
            base = dict(mode='ccm', klen=16, nlen=12, mac=8, alen=a, dlen=1, aad_sym=2)
            if thorough:
                jobs.append(('dec', dict(base, tlen=8)))
            jobs.append(('enc', dict(base, declare=True)))
    return jobs


def shapes(tier):
    thorough = tier == 'thorough'
    jobs = []
    for mode in ('gcm', 'ccm', 'eax', 'ocb', 'chacha'):
        jobs.extend(_mode_jobs(mode, thorough))
    # SIV
    for k in ((32, 48, 64) if thorough else (32,)):
        for n in ((None, 1, 16, 17) if thorough else (None, 16)):
            for comps in (((), (0,), (1,), (16,), (17,), (1, 16), (16, 17, 0)) if thorough
                          else ((), (17,), (1, 16))):
                if thorough and k != 32 and comps not in ((), (1, 16)):
                    continue
                for d in ((0, 1, 15, 16, 17, 33) if thorough else (0, 1, 17)):
                    base = dict(mode='siv', klen=k, nlen=n, comps=list(comps), dlen=d)
                    jobs.append(('siv_dec', dict(base, tlen=16)))
                    jobs.append(('siv_enc', dict(base)))
                    if d == 17 and len(comps) < 2:
                        jobs.append(('siv_dec', dict(base, tlen=15)))
                        jobs.append(('siv_dec', dict(base, tlen=17)))
    jobs.append(('siv_dec', dict(mode='siv', klen=64, nlen=None, comps=[1], dlen=17, tlen=16)))
    jobs.append(('siv_dec', dict(mode='siv', klen=16, nlen=None, comps=[], dlen=1, tlen=16)))
    jobs.append(('siv_dec', dict(mode='siv', klen=32, nlen=0, comps=[], dlen=1, tlen=16)))
    # KW / KWP
    for k in (KEYS if thorough else (16, 32)):
        for d in ((8, 16, 23, 24, 25, 32, 40) if thorough else (16, 23, 24, 32)):
            jobs.append(('kw_unseal', dict(klen=k, dlen=d)))
        for d in ((8, 15, 16, 24, 32) if thorough else (8, 15, 16, 24)):
            jobs.append(('kw_seal', dict(klen=k, dlen=d)))
        for d in ((8, 16, 17, 24, 32, 40) if thorough else (8, 16, 24, 32)):
            jobs.append(('kwp_unseal', dict(klen=k, dlen=d)))
        for d in ((0, 1, 7, 8, 9, 15, 16, 17, 24, 25) if thorough else (0, 1, 8, 9, 16, 17)):
            jobs.append(('kwp_seal', dict(klen=k, dlen=d)))
    return jobs


BOUNDS = dict(
    key_bytes="AES 16/24/32 (SIV 32/48/64, ChaCha20 32); quick: full combos on the first size only",
    nonce_bytes=NONCES, mac_len=MACS, illegal_parameters=BAD,
    aad_msg_lengths=dict(quick=COMBOS_Q, thorough="all pairs of %r for min/max mac_len on 16-byte keys, "
                         "%r elsewhere" % (LENS_T, COMBOS_Q)),
    received_tag_lengths="mac_len and mac_len+-1 (thorough also 0, 16, 17)",
    siv="0..3 AAD components of lengths 0/1/16/17, nonce absent/1/16/17, message 0..33",
    kw_kwp="KW 8..40 bytes, KWP plaintext 0..25 / ciphertext 8..40",
    outside=["messages longer than 33 bytes", "the block/stream/GHASH/Poly1305 primitives themselves",
             "hexverify (binascii on symbolic text)", "ghash_clmul.c / AESNI.c"],
)
ASSUMPTIONS = [
    "block cipher = uninterpreted E/D with D(k,E(k,x))=x and E(k,D(k,y))=y (instantiated per application)",
    "GF(2^128) multiply, ChaCha20 block, HChaCha20, Poly1305 = uninterpreted functions",
    "BLAKE2s keyed with 16 fresh random bytes is injective on the two compared strings (the "
    "constant-time comparison idiom); equal MACs <=> equal byte strings of equal length",
    "native modes raw_ecb/cbc/ctr/ocb, strxor, ghash = contract models in vlib/pysym/natives.py "
    "(the C itself is checked against the same contracts by LLSYM under C02/C09/C11/C17)",
]
EXPLANATION = ("bounded symbolic execution (PYSYM) of the real AEAD mode classes per shape with all "
               "byte contents symbolic; z3 decides 'accept <=> received tag = specification tag' and "
               "'output = specification' against reference models written from the standards; sat "
               "models are replayed on the real library before being reported")
