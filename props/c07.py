"""C07 -- RSA-OAEP and PKCS#1 v1.5 encryption round-trip and decode exactly per RFC 8017.

Engine: LLSYM on src/pkcs1_decode.c (pkcs1_decode, oaep_decode and every helper, nothing stubbed): the
encoded message EM is k solver-variable bytes, so one query decides the decoding decision for all
256^k messages of that length.  PYSYM on the Python wrappers (PKCS1_v1_5.decrypt / PKCS1_OAEP.decrypt)
with the C in the loop.
"""
from vlib.env import Harness
from vlib.llsym import kern


# ---- RFC 8017 7.2.2 (EME-PKCS1-v1_5 decoding) as a predicate over EM

def ref_pkcs1(env, em, sentinel, expected):
    """-> (valid, result, output) per the documented contract of pkcs1_decode():
    valid  <=> EM = 00 02 PS 00 M, |PS| >= 8, PS non-zero, and |M| = expected when expected > 0
    result  =  index in `output` where the returned bytes start
    output  =  EM when valid, else the sentinel right-aligned in k zero bytes"""
    P = env.P
    k = len(em)
    s = len(sentinel)
    prefix_ok = env.And(em[0] == 0, em[1] == 2, *[env.Not(em[i] == 0) for i in range(2, 10)])
    valid = False
    result = k - s
    nz = True           # all of em[10..p-1] non-zero
    for p in range(10, k):
        first_zero = env.And(nz, em[p] == 0)
        v_p = env.And(prefix_ok, first_zero, True if expected == 0 else (k - p - 1 == expected))
        valid = env.Or(valid, v_p)
        result = env.ite(v_p, p + 1, result)
        nz = env.And(nz, env.Not(em[p] == 0))
    padded = P.concat(bytes(k - s), sentinel)
    output = env.ite_bytes(valid, em, padded)
    return valid, result, output


def run_pkcs1_decode(env, sh):
    k, s, e = sh['k'], sh['slen'], sh['expected']
    K = kern.kernel(env, 'pkcs1_decode.c')
    em = env.bytes('em', k)
    sentinel = env.bytes('sentinel', s)
    p_em = K.buf(em, writable=False, name='em')
    p_s = K.buf(sentinel, writable=False, name='sentinel')
    p_out = K.out(k, 'output')
    r = K.call('pkcs1_decode', p_em, k, p_s, s, e, p_out)
    K.check_memory_safe()
    legal = k >= 12 and s <= k and not (e > 0 and e > k - 11)
    if not legal:
        env.check(r == -1, 'illegal lengths are refused with -1')
        return
    valid, result, output = ref_pkcs1(env, em, sentinel, e)
    env.check(r == result, 'returned offset == RFC 8017 decoding (message start when valid, sentinel start otherwise)')
    env.check(K.read(p_out, k) == output, 'output buffer == EM when valid, right-aligned sentinel otherwise')
    env.check(K.live_heap() == [], 'no allocation outlives the call')
    K.check_frame(('output',), 'only the output buffer is written')


# ---- RFC 8017 7.1.2 step 3g (EME-OAEP decoding) over (Y, DB)

def ref_oaep(env, em0, lhash, db):
    """-> (ok, offset): ok <=> Y == 0 and DB = lHash' || PS(zeros) || 01 || M with lHash' == lHash;
    offset = index in DB where M starts"""
    h = len(lhash)
    n = len(db)
    ok_head = env.And(em0 == 0, db[:h] == lhash)
    ok = False
    off = -1
    zeros = True
    for p in range(h, n):
        v = env.And(ok_head, zeros, db[p] == 1)
        ok = env.Or(ok, v)
        off = env.ite(v, p + 1, off)
        zeros = env.And(zeros, db[p] == 0)
    return ok, off


def run_oaep_decode(env, sh):
    k, h = sh['k'], sh['hlen']
    K = kern.kernel(env, 'pkcs1_decode.c')
    dblen = sh.get('dblen', k - 1 - h)
    em = env.bytes('em', k)
    lhash = env.bytes('lhash', h)
    db = env.bytes('db', dblen)
    r = K.call('oaep_decode', K.buf(em, False, 'em'), k, K.buf(lhash, False, 'lhash'), h, K.buf(db, False, 'db'), dblen)
    K.check_memory_safe()
    if k < 2 * h + 2 or dblen != k - 1 - h:
        env.check(r == -1, 'illegal lengths are refused with -1')
        return
    ok, off = ref_oaep(env, em[0], lhash, db)
    env.check(r == off, 'oaep_decode == RFC 8017 7.1.2 step 3g decision (offset of M, or -1)')
    env.check(K.live_heap() == [], 'no allocation outlives the call')
    K.check_frame((), 'no caller buffer is written')


# ---- Python wrappers with the C in the loop

class StubRsaKey(object):
    """Stands for an RSA private key of k bytes: the private operation maps the ciphertext integer to an
    ARBITRARY encoded message (c -> c^d mod n is a bijection on [0, n), so 'all ciphertexts' = 'all EM')."""

    def __init__(self, k, em, nbits=None):
        self.k = k
        self.n = (1 << (nbits or 8 * k)) - 1 - 2 * 3       # any modulus of that size
        self.em = em
        self.calls = 0

    def size_in_bytes(self):
        return self.k

    def size_in_bits(self):
        return self.n.bit_length()

    def can_decrypt(self):
        return True

    def has_private(self):
        return True

    def _decrypt_to_bytes(self, c):
        self.calls += 1
        return self.em


def run_v15_decrypt(env, sh):
    from Crypto.Cipher import PKCS1_v1_5
    k, e = sh['k'], sh['expected']
    em = env.bytes('em', k)
    ct = env.bytes('ct', sh.get('ctlen', k))
    skind = sh['sentinel']
    if skind == 'none':
        sentinel = None
    elif skind == 'obj':
        sentinel = ("not", "bytes")
    else:
        sentinel = env.bytes('sentinel', int(skind))
    key = StubRsaKey(k, em)
    cipher = PKCS1_v1_5.new(key)
    try:
        out = cipher.decrypt(ct, sentinel, e)
    except ValueError:
        env.check(sh.get('ctlen', k) != k, 'ValueError only for a ciphertext of the wrong length')
        return
    env.check(sh.get('ctlen', k) == k, 'a ciphertext of the wrong length is refused')
    valid, result, _ = ref_pkcs1(env, em, b"", e)      # (an expected length above k-11 matches no message)
    # message when the padding is valid, the caller's sentinel otherwise
    if K_is_bytes(sentinel) and len(sentinel) <= k:
        cases = []
        for p in range(10, k):
            cases.append(env.And(valid, result == p + 1, out == em[p + 1:]))
        env.check(env.Or(env.And(env.Not(valid), out == sentinel), *cases),
                  'decrypt returns M when EM = 00 02 PS 00 M is well formed, else the sentinel')
        env.check(env.implies(env.Not(valid), out == sentinel), 'an incorrectly padded block is never returned as plaintext')
    else:
        is_sent = out is sentinel
        if is_sent:
            env.check(env.Not(valid), 'the sentinel object is returned only for invalid padding')
        else:
            env.check(valid, 'plaintext returned only for valid padding')
            env.check(env.Or(*[env.And(result == p + 1, out == em[p + 1:]) for p in range(10, k)]), 'returned bytes are M')


def K_is_bytes(x):
    return x is not None and not isinstance(x, tuple)


def _mgf1(P, hname, hlen, seed, n):
    t = []
    for c in range((n + hlen - 1) // hlen):
        t.append(P.hash(hname, P.concat(seed, c.to_bytes(4, 'big')), hlen))
    return P.concat(*t)[:n] if t else P.const(b"")


def run_oaep_decrypt(env, sh):
    import importlib
    from Crypto.Cipher import PKCS1_OAEP
    P = env.P
    k, hname = sh['k'], sh['hash']
    hmod = importlib.import_module("Crypto.Hash." + hname)
    h = hmod.digest_size
    em = env.bytes('em', k)
    ct = env.bytes('ct', sh.get('ctlen', k))
    label = env.bytes('label', sh['llen'])
    key = StubRsaKey(k, em, nbits=sh.get('nbits'))
    cipher = PKCS1_OAEP.new(key, hashAlgo=hmod, label=label)
    try:
        out = cipher.decrypt(ct)
        ok = True
    except ValueError:
        ok = False
    if sh.get('ctlen', k) != k or k < 2 * h + 2:
        env.check(not ok, 'wrong ciphertext length / too small modulus is refused')
        return
    # RFC 8017 7.1.2 steps 3a-3g over the same (uninterpreted) hash
    lhash = P.hash(hname, label, h)
    y, mseed, mdb = em[0], em[1:h + 1], em[h + 1:]
    seed = P.xor(mseed, _mgf1(P, hname, h, mdb, h))
    db = P.xor(mdb, _mgf1(P, hname, h, seed, k - h - 1))
    good, off = ref_oaep(env, y, lhash, db)
    env.iff(ok, good, 'decrypt raises ValueError exactly when RFC 8017 7.1.2 step 3g rejects')
    if ok:
        env.check(env.Or(*[env.And(off == p + 1, out == db[p + 1:]) for p in range(h, len(db))]),
                  'returned message == bytes after the 01 separator')


class _Exhausted(BaseException):
    pass


class _Tape(object):
    def __init__(self, env, max_calls):
        self.env, self.max_calls, self.draws = env, max_calls, []

    def __call__(self, n):
        if len(self.draws) >= self.max_calls:
            raise _Exhausted()
        b = self.env.bytes('rnd%d' % len(self.draws), int(n))
        self.draws.append(b)
        return b


class StubPubKey(object):
    def __init__(self, env, k, nbits=None):
        self.env, self.k = env, k
        self.n = (1 << (nbits or 8 * k)) - 1 - 2 * 3
        self.seen = []

    def size_in_bytes(self):
        return self.k

    def can_encrypt(self):
        return True

    def _encrypt(self, em_int):
        self.seen.append(em_int)
        return self.env.int('c', 8 * self.k - 1)        # some integer below the modulus


def run_oaep_encrypt(env, sh):
    import importlib
    from Crypto.Cipher import PKCS1_OAEP
    P = env.P
    k, hname, mlen = sh['k'], sh['hash'], sh['mlen']
    hmod = importlib.import_module("Crypto.Hash." + hname)
    h = hmod.digest_size
    msg = env.bytes('msg', mlen)
    label = env.bytes('label', sh['llen'])
    key = StubPubKey(env, k)
    tape = _Tape(env, 1)
    cipher = PKCS1_OAEP.new(key, hashAlgo=hmod, label=label, randfunc=tape)
    try:
        ct = cipher.encrypt(msg)
    except ValueError:
        env.check(mlen > k - 2 * h - 2, 'encrypt refuses only messages longer than k - 2hLen - 2')
        return
    env.check(mlen <= k - 2 * h - 2, 'messages longer than k - 2hLen - 2 are refused')
    env.check(len(key.seen) == 1 and len(tape.draws) == 1 and len(tape.draws[0]) == h, 'one hLen-byte seed is drawn')
    seed = tape.draws[0]
    lhash = P.hash(hname, label, h)
    db = P.concat(lhash, bytes(k - mlen - 2 * h - 2), b"\x01", msg)
    mdb = P.xor(db, _mgf1(P, hname, h, seed, k - h - 1))
    mseed = P.xor(seed, _mgf1(P, hname, h, mdb, h))
    em = P.concat(b"\x00", mseed, mdb)
    env.check(key.seen[0] == P.b2i(em), 'EM == 00 || maskedSeed || maskedDB per RFC 8017 7.1.1')
    env.check(len(ct) == k, 'ciphertext has exactly k bytes')
    # the receiver decodes that EM back to the message
    rk = StubRsaKey(k, em)
    back = PKCS1_OAEP.new(rk, hashAlgo=hmod, label=label).decrypt(ct)
    env.check(back == msg, 'decrypt(encrypt(M)) == M')


def run_v15_encrypt(env, sh):
    from Crypto.Cipher import PKCS1_v1_5
    P = env.P
    k, mlen = sh['k'], sh['mlen']
    msg = env.bytes('msg', mlen)
    key = StubPubKey(env, k)
    pslen = k - mlen - 3
    tape = _Tape(env, max(0, pslen) + sh.get('retries', 1))
    cipher = PKCS1_v1_5.new(key, randfunc=tape)
    try:
        ct = cipher.encrypt(msg)
    except ValueError:
        env.check(mlen > k - 11, 'encrypt refuses only messages longer than k - 11')
        return
    except _Exhausted:
        env.check(True, 'more zero bytes drawn than the bound: path cut')
        return
    env.check(mlen <= k - 11, 'messages longer than k - 11 are refused')
    em = P.i2b(key.seen[0], k)
    valid, result, _ = ref_pkcs1(env, em, b"", 0)
    env.check(valid, 'EM is a well-formed 00 02 PS 00 M block (PS non-zero, at least 8 bytes)')
    env.check(em[k - mlen:] == msg if mlen else True, 'M is the tail of EM')
    env.check(em[k - mlen - 1] == 0, 'separator directly in front of M')
    used = [d for d in tape.draws]
    env.check(all(len(d) == 1 for d in used), 'padding bytes are drawn one at a time')
    env.check(len(ct) == k, 'ciphertext has exactly k bytes')
    back = PKCS1_v1_5.new(StubRsaKey(k, em)).decrypt(ct, b"S")
    env.check(back == msg, 'decrypt(encrypt(M)) == M')


HARNESSES = dict(oaep_encrypt=Harness('oaep_encrypt', run_oaep_encrypt), v15_encrypt=Harness('v15_encrypt', run_v15_encrypt, max_paths=20000),
                 v15_decrypt=Harness('v15_decrypt', run_v15_decrypt), oaep_decrypt=Harness('oaep_decrypt', run_oaep_decrypt),
                 pkcs1_decode=Harness('pkcs1_decode', run_pkcs1_decode), oaep_decode=Harness('oaep_decode', run_oaep_decode))


def shapes(tier):
    th = tier == 'thorough'
    jobs = []
    ks = list(range(12, 41)) if th else [12, 13, 16, 24, 32]
    for k in ks:
        for s in sorted(set([0, 1, k - 11, k - 1, k])):
            if s < 0:
                continue
            for e in sorted(set([0, 1, k - 11, k - 12])):
                if e < 0:
                    continue
                if not th and (s, e) not in ((0, 0), (1, 0), (k, 0), (0, 1), (0, k - 11), (k - 11, k - 12)):
                    continue
                jobs.append(('pkcs1_decode', dict(k=k, slen=s, expected=e)))
    for k, s, e in ((11, 0, 0), (12, 13, 0), (12, 0, 2), (10, 0, 0)):
        jobs.append(('pkcs1_decode', dict(k=k, slen=s, expected=e)))
    # positions are compared byte-wise over sizeof(size_t): sizes beyond 256 (and 512 in thorough)
    # (k = 522 / 523 and OAEP k = 275 / 522 were tried: z3 answers unknown within the budget on a loaded machine: outside)
    for k in ((266, 267, 300) if th else (266, 267)):
        jobs.append(('pkcs1_decode', dict(k=k, slen=0, expected=0)))
        jobs.append(('pkcs1_decode', dict(k=k, slen=1, expected=k - 11 - 255)))
    for h, k in (((4, 266), (8, 267)) if th else ((4, 266),)):
        jobs.append(('oaep_decode', dict(k=k, hlen=h)))
    for h in (4, 8) if not th else (1, 4, 8, 20):
        for k in (range(2 * h + 2, 41) if th else (2 * h + 2, 2 * h + 3, 2 * h + 10, 40)):
            jobs.append(('oaep_decode', dict(k=k, hlen=h)))
        jobs.append(('oaep_decode', dict(k=2 * h + 1, hlen=h)))
        jobs.append(('oaep_decode', dict(k=2 * h + 4, hlen=h, dblen=h + 2)))
    for k in ((12, 13, 16, 24, 32, 40) if th else (12, 16, 24)):
        for sent in ('0', '1', str(k), str(k + 1), 'none', 'obj'):
            for e in ((0, 1, k - 11, k - 10, k) if th else (0, k - 11, k - 10)):
                jobs.append(('v15_decrypt', dict(k=k, sentinel=sent, expected=e)))
        jobs.append(('v15_decrypt', dict(k=k, sentinel='0', expected=0, ctlen=k - 1)))
        jobs.append(('v15_decrypt', dict(k=k, sentinel='0', expected=0, ctlen=k + 1)))
    for hname, h in (('SHA1', 20), ('SHA256', 32)) if th else (('SHA1', 20),):
        for k in ((2 * h + 2, 2 * h + 3, 2 * h + 10, 2 * h + 24) if th else (2 * h + 2, 2 * h + 6)):
            for ll in ((0, 1, 20) if th else (0, 3)):
                jobs.append(('oaep_decrypt', dict(k=k, hash=hname, llen=ll)))
        jobs.append(('oaep_decrypt', dict(k=2 * h + 4, hash=hname, llen=0, ctlen=2 * h + 3)))
        jobs.append(('oaep_decrypt', dict(k=2 * h + 1, hash=hname, llen=0)))
        for k in ((2 * h + 2, 2 * h + 3, 2 * h + 12) if th else (2 * h + 2, 2 * h + 5)):
            mx = k - 2 * h - 2
            for m in sorted(set([0, 1, mx - 1, mx, mx + 1])):
                if m >= 0:
                    jobs.append(('oaep_encrypt', dict(k=k, hash=hname, mlen=m, llen=0 if m else 2)))
    for k in ((12, 13, 16, 20) if th else (12, 16)):          # long paddings exceed the path cap (one fork per non-zero padding byte)
        for m in sorted(set([0, 1, k - 12, k - 11, k - 10])):
            if m >= 0 and (k - m <= 16):
                jobs.append(('v15_encrypt', dict(k=k, mlen=m)))
    return jobs


BOUNDS = dict(pkcs1_decode="k in 12..40 (every value in thorough), sentinel length {0,1,k-11,k-1,k}, expected_pt_len {0,1,k-12,k-11}",
              oaep_decode="hLen in {4,8} (thorough {1,4,8,20}), k in 2hLen+2..40",
              outside=["RSA modexp / blinding", "real hashes and MGF (uninterpreted)", "k > 40"])
ASSUMPTIONS = ["the RSA private operation is a bijection on [0,n): 'all ciphertexts' = 'all EM' (EM < n kept out: the C "
               "decoders take EM as given)", "malloc succeeds"]
EXPLANATION = ("translation of the real C (clang IR) into z3 terms by LLSYM and bounded symbolic execution: for each length k "
               "the whole encoded message is symbolic and z3 decides equality of the C result with the RFC 8017 decoding "
               "predicate; every memory access is bounds-checked; counterexamples are replayed on the gcc-built C")
