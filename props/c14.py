"""C14 -- big-integer arithmetic is exact in every back-end; primality tests are sound (partial).

What is decided here, and by what:
  PYSYM on the real Math/_IntegerNative.py, Math/_IntegerBase.py, Util/number.py, Math/Primality.py with the operands
  solver variables of REDUCED width (the algorithms are width-independent Python; their loops are unrolled by
  forking):
    int_algo : sqrt, is_perfect_square, gcd, lcm, inverse, jacobi_symbol, size_in_bits/bytes, to_bytes/from_bytes in
               both byte orders and every block size, get_bit, shifts, mixed int/Integer and in-place operators,
               the documented exceptions (negative exponent, zero / negative modulus, no inverse, negative value
               to bytes, quadratic non-residue), modular square roots for small prime moduli
    custom_glue : Math/_IntegerCustom.py pow() / _mult_modulo_bytes over the CONTRACT of src/modexp.c (operands of one
               common length, odd modulus; the C itself: modexp_c below) for operands of different byte lengths
    mr_prime : Miller-Rabin never declares a prime composite, for EVERY random tape (all bases), primes below 2^8
    mr_round : one round of both Miller-Rabin implementations == the strong-probable-prime predicate for EVERY base, odd n
               below 2^8 and the Carmichael numbers 561, 1105, 1729 (and 2047)
  LLSYM on the real C:
    conv_c   : endianess.h bytes_to_words / words_to_bytes (as compiled into mont.c) for every length 1..17 and
               word count: value preserved, leading zeros, refusal exactly when the value does not fit
    modexp_c : modexp.c monty_pow / monty_multiply + mont.c on CONCRETE operands of word-boundary byte lengths
               (LLSYM as bounds-checking interpreter): every access in bounds, everything released, result ==
               Python's pow / product  (exactness for the operands run, not for all operands)
    bignum   : bignum.c ge / sub / add_mod / sub_mod / mod_select with all limbs symbolic (harness shared with C06)
NOT decided: exactness of the multiplication-based C kernels (mont_mult_*, addmul128, square, product) and of the
GMP back-end for all operands -- wide symbolic multiplication is not SMT-decidable here (measured) and GMP is
a binary library; composites of the adversarial families being declared composite (a probabilistic statement
over the bases); prime generation sizes (C05/C18 cover the sampling ranges).
"""
import operator

from vlib.env import Harness
from vlib.llsym import kern


def _Integer():
    # the pure-Python back-end is the code under test here, in the symbolic run and in replay / validation alike
    # (Numbers.Integer would pick GMP or the custom C back-end when running on the real library)
    from Crypto.Math._IntegerNative import IntegerNative
    return IntegerNative


def _v(x):
    """Integer wrapper -> int / symbolic int (any back-end)"""
    v = getattr(x, '_value', None)
    if v is not None and not hasattr(v, 'contents') and isinstance(v, int) or type(v).__name__ == 'SymInt':
        return v
    if hasattr(x, '__int__') and type(x).__name__.startswith('Integer'):
        return int(x)
    return x


def _ifb(env, c, a, b):
    """if-then-else over conditions"""
    return env.Or(env.And(c, a), env.And(env.Not(c), b))


def _shims(env):
    from props.c05 import _small_int_shims
    return _small_int_shims(env)


def _divides_table(env, a, b, g, w):
    """g == gcd(a, b) for 0 <= a, b < 2^w, not both 0: g divides both, and every common divisor is <= g"""
    g = int(g) if not env.sym else g
    conds = [g >= 1, a % g == 0, b % g == 0]
    for d in range(2, 1 << w):
        conds.append(env.Or(env.Not(env.And(a % d == 0, b % d == 0)), g >= d))
    return env.And(*conds)


def _jacobi(a, n):
    a %= n
    r = 1
    while a:
        while a % 2 == 0:
            a //= 2
            if n % 8 in (3, 5):
                r = -r
        a, n = n, a
        if a % 4 == 3 and n % 4 == 3:
            r = -r
        a %= n
    return r if n == 1 else 0


def run_int_algo(env, sh):
    Integer = _Integer()
    op, w = sh['op'], sh.get('w', 8)
    undo = _shims(env)
    try:
        _int_algo(env, sh, Integer, op, w)
    finally:
        undo()


def _int_algo(env, sh, Integer, op, w):
    P = env.P
    if op == 'sqrt':
        v = env.int('v', w)
        r = _v(Integer(v).sqrt())
        env.check(env.And(r >= 0, r * r <= v, v < (r + 1) * (r + 1)), 'sqrt(v) == floor of the real square root')
        try:
            Integer(-1 - v).sqrt()
            env.check(False, 'square root of a negative value raises ValueError')
        except ValueError:
            env.check(True, 'negative refused')
    elif op == 'perfect_square':
        v = env.int('v', w, signed=True)
        r = Integer(v).is_perfect_square()
        env.check(env.eqv(r, env.Or(*[v == k * k for k in range(1 << ((w + 1) // 2))])), 'is_perfect_square(v) <=> v is a square')
    elif op == 'gcd':
        a, b = env.int('a', w, signed=True), env.int('b', w, signed=True)
        g = _v(Integer(a).gcd(b))
        aa, bb = env.ite(a < 0, -a, a), env.ite(b < 0, -b, b)
        if g == 0:          # forks when g is symbolic
            env.check(env.And(a == 0, b == 0), 'gcd is 0 only for gcd(0, 0)')
        else:
            env.check(env.And(env.Not(env.And(a == 0, b == 0)), _divides_table(env, aa, bb, g, w)), 'gcd(a, b) is the greatest common divisor (sign ignored)')
        g2 = _v(Integer(a).gcd(Integer(b)))
        env.check(g2 == g, 'gcd accepts int and Integer operands alike')
    elif op == 'lcm':
        a, b = env.int('a', w), env.int('b', w)
        l = _v(Integer(a).lcm(b))
        g = _v(Integer(a).gcd(b))
        env.check(_ifb(env, env.Or(a == 0, b == 0), l == 0, env.And(l * g == a * b, l >= 1)), 'lcm(a, b) * gcd(a, b) == a * b; lcm with 0 is 0')
    elif op == 'inverse':
        a, m = env.int('a', w), env.int('m', w)
        env.assume(m >= 2)
        cop = env.And(*[env.Not(env.And(a % d == 0, m % d == 0)) for d in range(2, 1 << w)])
        try:
            inv = _v(Integer(a).inverse(m))
            ok = True
        except (ValueError, ZeroDivisionError):
            ok = False
        env.check(env.eqv(ok, cop), 'inverse exists exactly when gcd(a, m) == 1')
        if ok:
            env.check(env.And(inv >= 0, inv < m, (a * inv) % m == 1 % m), 'a * inverse(a, m) == 1 (mod m), reduced')
            x = Integer(a)
            r = x.inplace_inverse(m)
            env.check(r is x and _v(x) == inv, 'inplace_inverse mutates and returns self')
    elif op == 'jacobi':
        a = env.int('a', w, signed=sh.get('signed', False))
        n = 2 * operator.index(env.int('nh', w - 1)) + 1          # every odd n below 2^w (solver-enumerated)
        j = Integer.jacobi_symbol(a, n)
        tab = {}
        for r in range(n):
            tab.setdefault(_jacobi(r, n), []).append(r)
        am = a % n
        for val, rs in tab.items():
            env.check(env.implies(env.Or(*[am == r for r in rs]), _v(j) == val), 'jacobi_symbol(a, %d) == %d on the residues where the definition gives %d' % (n, val, val))
        for bad in (0, -3, 4):
            try:
                Integer.jacobi_symbol(a, bad)
                env.check(False, 'jacobi_symbol refuses n = %d' % bad)
            except ValueError:
                env.check(True, 'refused')
    elif op == 'size':
        v = env.int('v', w)
        s = Integer(v).size_in_bits()
        env.check(_ifb(env, v == 0, _v(s) == 1, v >> (_v(s) - 1) == 1), 'size_in_bits(v) == bit length (1 for zero)')
        env.check(_v(Integer(v).size_in_bytes()) == (_v(s) + 7) // 8, 'size_in_bytes == ceil(size_in_bits / 8)')
        for f in (Integer.size_in_bits, Integer.size_in_bytes):
            try:
                f(Integer(-1 - v))
                env.check(False, 'size of a negative value raises ValueError')
            except ValueError:
                env.check(True, 'refused')
    elif op == 'bytes':
        v = env.int('v', w)
        bs, order = sh['bs'], sh['order']
        nb = (w + 7) // 8
        try:
            enc = Integer(v).to_bytes(bs, order) if bs else Integer(v).to_bytes(byteorder=order)
            ok = True
        except ValueError:
            ok = False
        if bs:
            env.check(env.eqv(ok, v < (1 << (8 * bs))), 'to_bytes(block_size) refuses exactly the values that do not fit')
        else:
            env.check(ok, 'to_bytes() without block size always succeeds')
        if ok:
            if bs:
                env.check(len(enc) == bs and enc == P.i2b(v, bs, order), 'to_bytes == fixed-size %s-endian encoding' % order)
            else:
                env.check(P.b2i(enc, order) == v and len(enc) >= 1, 'to_bytes == minimal %s-endian encoding' % order)
                env.check(env.Or(len(enc) == 1, (enc[0] if order == 'big' else enc[-1]) != 0), 'no superfluous zero byte')
            back = Integer.from_bytes(enc, order) if order != 'big' else Integer.from_bytes(enc)
            env.check(_v(back) == v, 'from_bytes(to_bytes(v)) == v')
        try:
            Integer(-1 - v).to_bytes()
            env.check(False, 'negative values cannot be converted to bytes')
        except ValueError:
            env.check(True, 'refused')
        try:
            Integer(v).to_bytes(byteorder='middle')
            env.check(False, 'unknown byte order refused')
        except ValueError:
            env.check(True, 'refused')
    elif op == 'bits':
        v = env.int('v', w)
        n = env.int('n', 7)
        b = Integer(v).get_bit(n)
        env.check(env.eqv(b, (v >> n) & 1 == 1), 'get_bit(n) == bit n of v (0 beyond the top)')
        env.check(env.eqv(Integer(v).get_bit(Integer(n)), (v >> n) & 1 == 1), 'get_bit accepts an Integer position')
        for pos in (-1, Integer(-2)):
            try:
                Integer(v).get_bit(pos)
                env.check(False, 'negative bit position raises ValueError')
            except ValueError:
                env.check(True, 'refused')
        env.check(_v(Integer(v) >> n) == v >> n and _v(Integer(v) << n) == v << n, 'shifts by n are exact')
        x = Integer(v)
        x >>= n
        env.check(_v(x) == v >> n, 'in-place right shift is exact')
        env.check(env.eqv(Integer(v).is_odd(), v & 1 == 1) and env.eqv(Integer(v).is_even(), v & 1 == 0), 'is_odd / is_even')
    elif op == 'arith':
        a, b = env.int('a', w, signed=True), env.int('b', w, signed=True)
        A, B = Integer(a), Integer(b)
        env.check(_v(A + B) == a + b and _v(A + b) == a + b, 'addition with an int or an Integer operand')
        env.check(_v(A - B) == a - b and _v(A - b) == a - b, 'subtraction with an int or an Integer operand')
        env.check(_v(A * B) == a * b and _v(A * b) == a * b, 'multiplication with an int or an Integer operand')
        env.check(_v(abs(A)) == env.ite(a < 0, -a, a), 'absolute value')
        env.check(env.eqv(A < B, a < b) and env.eqv(A <= b, a <= b) and env.eqv(A == B, a == b) and env.eqv(A != b, a != b) and env.eqv(A >= B, a >= b)
                  and env.eqv(A > b, a > b), 'comparisons agree with the integers')
        env.check(_v(A & B) == a & b and _v(A | B) == a | b, 'bit operations (also on negative values)')
        x = Integer(a)
        r = x.multiply_accumulate(b, 3)
        env.check(r is x and _v(x) == a + 3 * b, 'multiply_accumulate: self += a*b, returns self')
        y = Integer(a)
        y += b
        y *= 3
        y -= B
        env.check(_v(y) == (a + b) * 3 - b, 'in-place operators')
        env.check(env.eqv(bool(A), a != 0) and env.eqv(A.is_negative(), a < 0), 'truth value and sign')
    elif op == 'divmod':
        a, m = env.int('a', w, signed=True), env.int('m', w, signed=True)
        A = Integer(a)
        try:
            r = _v(A % m)
            kind = None
        except ZeroDivisionError:
            kind = 'zero'
        except ValueError:
            kind = 'neg'
        env.check(_ifb(env, m == 0, kind == 'zero', _ifb(env, m < 0, kind == 'neg', kind is None)), 'a % m: ZeroDivisionError for 0, ValueError for a negative modulus')
        if kind is None:
            env.check(env.And(r >= 0, r < m, (a - r) % m == 0), '0 <= a % m < m and m | a - (a % m)')
            q = _v(A // m)
            env.check(q * m + r == a, 'a == (a // m) * m + (a % m)')
            x = Integer(a)
            x %= m
            env.check(_v(x) == r, 'in-place modulo')
    elif op == 'pow':
        b, e, m = env.int('b', w), env.int('e', 4, signed=True), env.int('m', w, signed=True)
        try:
            r = _v(pow(Integer(b), e, m))
            kind = None
        except ZeroDivisionError:
            kind = 'zero'
        except ValueError:
            kind = 'value'
        env.check(_ifb(env, e < 0, kind == 'value', _ifb(env, m < 0, kind == 'value', _ifb(env, m == 0, kind == 'zero', kind is None))),
                  'pow: ValueError for a negative exponent or modulus, ZeroDivisionError for modulus 0')
        if kind is None:
            ref = 1 % m
            for i in range(8):
                ref = env.ite(e > i, (ref * b) % m, ref)
            env.check(r == ref, 'pow(b, e, m) == b^e mod m (odd and even moduli)')
    elif op == 'modsqrt':
        p = sh['p']
        a = env.int('a', w)
        squares = sorted(set((k * k) % p for k in range(p)))
        isqr = env.Or(*[a % p == s for s in squares])
        try:
            r = _v(Integer(a).sqrt(modulus=p))
            ok = True
        except ValueError:
            ok = False
        env.check(env.eqv(ok, isqr), 'modular square root exists exactly for quadratic residues (ValueError otherwise)')
        if ok:
            env.check(env.And(r >= 0, r < p, (r * r) % p == a % p), 'sqrt(a, p)^2 == a (mod p)')
    else:
        raise KeyError(op)


def run_custom_glue(env, sh):
    """Math/_IntegerCustom.py on top of the contract of src/modexp.c: pow() and the constant-time modular product hand
    the C code three operands of one common length (longest of base, exponent and modulus), fall back to Python for
    even moduli, raise the documented exceptions, and the result is exact -- operands of different byte lengths"""
    import importlib
    import sys
    wb, we, wm = sh['wb'], sh['we'], sh['wm']
    b, e = env.int('b', wb), env.int('e', we, signed=sh.get('esigned', False))
    # symbolic modulus only at toy width (the power chain over a symbolic modulus is beyond z3 above ~5 bits); the byte-length
    # combinations that drive the glue use concrete moduli of 1, 2 and 9 bytes
    m = sh['m'] if 'm' in sh else env.int('m', wm, signed=sh.get('msigned', False))
    undo = _shims(env)
    if env.sym:
        from vlib.pysym import natives
        natives.MODEXP_MODEL[0] = True
        natives._lib_cache.pop("Crypto.Math._modexp", None)
    sys.modules.pop('Crypto.Math._IntegerCustom', None)
    try:
        IC = importlib.import_module('Crypto.Math._IntegerCustom').IntegerCustom
        breach = natives.ContractBreach if env.sym else ()
        if not env.sym and sh['op'] == 'pow' and isinstance(m, int) and m > 2:
            # replay / validation: a length mismatch is value-independent in the contract model, but on the real C it only
            # shows in the result for most -- not all -- values: offer a few more bases with the same exponent and modulus
            for b2 in (2, 3, 5, 6):
                try:
                    got = _v(pow(IC(b2), e, m))
                    env.check(e < 0 or got == pow(b2, e, m), 'pow(%d, e, m) through the custom back-end is exact' % b2)
                except (ValueError, ZeroDivisionError):
                    pass
        try:
            if sh['op'] == 'pow':
                r = _v(pow(IC(b), e, m))
            else:
                r = env.P.b2i(IC._mult_modulo_bytes(IC(b), IC(e), m))
            kind = None
        except ZeroDivisionError:
            kind = 'zero'
        except ValueError:
            kind = 'value'
        except breach as x:
            env.check(False, 'the operands handed to the C code all have the length passed with them [%s]' % x)
            return
    finally:
        undo()
        if env.sym:
            natives.MODEXP_MODEL[0] = False
            natives._lib_cache.pop("Crypto.Math._modexp", None)
        sys.modules.pop('Crypto.Math._IntegerCustom', None)
    if sh['op'] == 'pow':
        env.check(_ifb(env, e < 0, kind == 'value', _ifb(env, m < 0, kind == 'value', _ifb(env, m == 0, kind == 'zero', kind is None))),
                  'pow: ValueError for a negative exponent or modulus, ZeroDivisionError for modulus 0')
        if kind is None:
            from props.c05 import powmod_ref
            # (the base is reduced first when it is not below the modulus, as the wrapper does: b^e = (b mod m)^e mod m;
            #  keeping the same normal form lets the solver close the comparison structurally)
            bb = b % m if (b >= m) else b
            ref = powmod_ref(env, bb, e, m, we)
            env.check(r == ref, 'pow(b, e, m) == b^e mod m through the custom back-end (odd moduli in C, even ones in Python)')
    else:
        env.check(_ifb(env, m < 0, kind == 'value', _ifb(env, m == 0, kind == 'zero', _ifb(env, m & 1 == 0, kind == 'value', kind is None))),
                  'modular product: ValueError for negative or even moduli, ZeroDivisionError for modulus 0')
        if kind is None:
            t1 = b % m if (b >= m) else b
            t2 = e % m if (e >= m) else e
            env.check(r == (t1 * t2) % m, '_mult_modulo_bytes == term1 * term2 mod m (terms reduced first, as the wrapper does)')


def run_mr_prime(env, sh):
    """Miller-Rabin on a prime: PROBABLY_PRIME whatever the random tape says"""
    from Crypto.Math import Primality
    from props.c18 import Tape, TapeExhausted
    p = sh['p']
    env.concrete_rng(None)
    undo = _shims(env)
    tape = Tape(env, sh['draws'])
    try:
        try:
            r = Primality.miller_rabin_test(p, sh['iters'], randfunc=tape)
        except TapeExhausted:
            env.check(True, 'path cut: more rejected draws than the bound')
            return
    finally:
        undo()
    env.check(r == Primality.PROBABLY_PRIME, 'the prime %d is never declared composite' % p)


def run_mr_round(env, sh):
    """one Miller-Rabin round for a concrete odd n and EVERY base: 'probably prime' exactly when the base is a strong
    probable-prime base of n (a^d = 1, or a^(d 2^r) = -1 for some r < s, where n - 1 = d 2^s) -- both implementations
    (Math.Primality.miller_rabin_test and the legacy Util.number._rabinMillerTest); the base is injected in place of the
    random draw (the sampling itself is C18)"""
    from props.c05 import powmod_ref
    n, impl = sh['n'], sh['impl']
    a = env.int('a', n.bit_length())
    undo = _shims(env)
    try:
        if impl == 'primality':
            from Crypto.Math import Primality
            from Crypto.Math.Numbers import Integer as NI
            env.assume(env.And(a >= 2, a <= n - 2))
            real = NI.random_range
            NI.random_range = classmethod(lambda cls, **kw: NI(a))
            try:
                r = Primality.miller_rabin_test(n, 1, randfunc=lambda k: b"\x00" * k)
            finally:
                NI.random_range = real
            passed = (r == Primality.PROBABLY_PRIME)
        else:
            from Crypto.Util import number
            env.assume(env.And(a >= 2, a < n))
            real = number.getRandomRange
            number.getRandomRange = lambda lo, hi, randfunc=None: a
            try:
                r = number._rabinMillerTest(n, 1, randfunc=lambda k: b"\x00" * k)
            finally:
                number.getRandomRange = real
            passed = (r == 1)
    finally:
        undo()
    d, s_ = n - 1, 0
    while d % 2 == 0:
        d //= 2
        s_ += 1
    x = powmod_ref(env, a, d, n, d.bit_length())
    conds = [x == 1]
    for _ in range(s_):
        conds.append(x == n - 1)
        x = (x * x) % n
    env.check(env.eqv(passed, env.Or(*conds)), 'one round on n = %d passes exactly for the strong probable-prime bases (every base)' % n)


# ---------------------------------------------------------------- LLSYM

def run_conv_c(env, sh):
    # the converters are `static inline` in endianess.h: compiled here as ordinary functions so that the gcc-built
    # replay library exports them too (same macros for the IR and the replay build)
    K = kern.kernel(env, 'mont.c', extra_macros=('static=', 'inline='))
    P = env.P
    n, words = sh['n'], sh['words']
    if sh['dir'] == 'b2w':
        data = env.bytes('in', n)
        out = K.out(8 * words, 'x')
        r = K.call('bytes_to_words', out, words, K.buf(data, False, 'in'), n)
        v = P.b2i(data)
        fits = v < (1 << (64 * words))
        env.check(env.eqv(r == 0, fits), 'bytes_to_words succeeds exactly when the value fits the words (leading zero bytes do not count)')
        if r == 0:
            got = sum(P.b2i(K.read(out, 8, 8 * i), 'little') << (64 * i) for i in range(words))
            env.check(got == v, 'little-endian words hold the big-endian number')
    else:
        ws = [env.int('w%d' % i, 64) for i in range(words)]
        xb = K.buf(P.concat(*[P.i2b(x, 8, 'little') for x in ws]), False, 'x')
        out = K.out(n, 'out')
        r = K.call('words_to_bytes', out, n, xb, words)
        v = sum(x << (64 * i) for i, x in enumerate(ws))
        env.check(env.eqv(r == 0, v < (1 << (8 * n))), 'words_to_bytes succeeds exactly when the value fits the output')
        if r == 0:
            env.check(P.b2i(K.read(out, n)) == v, 'big-endian output (left-padded with zeros) holds the number')
    K.check_memory_safe()


def run_modexp_c(env, sh):
    """concrete operands through the real C under the LLSYM memory model"""
    K = kern.kernel(env, 'modexp.c+mont.c')
    if env.sym:
        K.m.step_budget = 80000000
    n = sh['n']
    P = env.P

    def val(salt, odd=False, top=True):
        b = bytearray((0x9D * (i + 3) + salt * 29 + (i * i)) & 0xFF for i in range(n))
        if top:
            b[0] |= 0x80
        if sh.get('lead'):
            b[0] = 0
        if odd:
            b[-1] |= 1
        return bytes(b)
    mod = val(1, odd=True)
    if sh.get('modtop') is not None:
        mod = bytes([sh['modtop']]) + mod[1:]
    m = int.from_bytes(mod, 'big')
    base = (int.from_bytes(val(2), 'big') % m).to_bytes(n, 'big')
    out = K.out(n, 'out')
    if sh['fn'] == 'pow':
        elen = sh.get('elen', n)
        e = int.from_bytes(val(3, top=False), 'big') >> (8 * (n - elen)) if elen else 0
        if sh.get('e') is not None:
            e = sh['e']
        eb = e.to_bytes(n, 'big')
        r = K.call('monty_pow', out, K.buf(base, False, 'base'), K.buf(eb, False, 'exp'), K.buf(mod, False, 'mod'), n, 0x1122334455667788)
        K.check_memory_safe('monty_pow(%d-byte operands) stays within every buffer, table and scratch area' % n)
        env.check(r == 0, 'monty_pow succeeds for an odd modulus')
        env.check(P.b2i(K.read(out, n)) == pow(int.from_bytes(base, 'big'), e, m), 'monty_pow == pow(base, exp, modulus)')
    else:
        t2 = (int.from_bytes(val(4), 'big') % m).to_bytes(n, 'big')
        r = K.call('monty_multiply', out, K.buf(base, False, 't1'), K.buf(t2, False, 't2'), K.buf(mod, False, 'mod'), n)
        K.check_memory_safe('monty_multiply(%d-byte operands) stays within every buffer and scratch area' % n)
        env.check(r == 0, 'monty_multiply succeeds for an odd modulus')
        env.check(P.b2i(K.read(out, n)) == (int.from_bytes(base, 'big') * int.from_bytes(t2, 'big')) % m, 'monty_multiply == term1 * term2 mod modulus')
    env.check(K.live_heap() == [], 'every allocation is released')
    K.check_frame(('out', 'pResult'), 'only the output buffer is written (inputs and module globals untouched)')


def run_modexp_refuse(env, sh):
    K = kern.kernel(env, 'modexp.c+mont.c')
    n = sh['n']
    mod = bytes([0x80] + [0] * (n - 2) + [sh['last']]) if n > 1 else bytes([sh['last']])
    out = K.out(n, 'out')
    one = (1).to_bytes(n, 'big')
    r = K.call('monty_pow', out, K.buf(one, False, 'base'), K.buf(one, False, 'exp'), K.buf(mod, False, 'mod'), n, 7)
    K.check_memory_safe()
    env.check(r != 0, 'an even (or zero / one) modulus is refused by the Montgomery code')
    env.check(K.live_heap() == [], 'nothing leaks on the error path')


def _c06():
    from props import c06
    return c06


HARNESSES = dict(int_algo=Harness('int_algo', run_int_algo, max_paths=100000, budget_s=900), mr_prime=Harness('mr_prime', run_mr_prime, max_paths=100000, budget_s=900),
                 conv_c=Harness('conv_c', run_conv_c), modexp_c=Harness('modexp_c', run_modexp_c, budget_s=900),
                 modexp_refuse=Harness('modexp_refuse', run_modexp_refuse))
HARNESSES['bignum'] = _c06().HARNESSES['bignum']
HARNESSES['mr_round'] = Harness('mr_round', run_mr_round, max_paths=100000, budget_s=900)
HARNESSES['custom_glue'] = Harness('custom_glue', run_custom_glue, max_paths=100000, budget_s=900)


def shapes(tier):
    th = tier == 'thorough'
    jobs = []
    for w in (8, 12) if th else (8,):
        jobs.append(('int_algo', dict(op='sqrt', w=w)))
    for w in (5, 6, 7) if th else (5, 6):
        jobs.append(('int_algo', dict(op='perfect_square', w=w)))
    jobs.append(('int_algo', dict(op='sqrt', w=16 if th else 10)))
    for w in (4, 5, 6) if th else (4, 5):
        jobs.append(('int_algo', dict(op='gcd', w=w)))
        jobs.append(('int_algo', dict(op='lcm', w=w)))
        jobs.append(('int_algo', dict(op='inverse', w=w)))
    for w in (4, 5, 6) if th else (4, 5):
        jobs.append(('int_algo', dict(op='jacobi', w=w)))
    jobs.append(('int_algo', dict(op='jacobi', w=4, signed=True)))
    for w in (8, 33, 64, 70):
        jobs.append(('int_algo', dict(op='size', w=w)))
    for w in (8, 16, 33, 64, 72) if th else (16, 33, 72):
        for order in ('big', 'little'):
            for bs in (0, 1, (w + 7) // 8 - 1, (w + 7) // 8, (w + 7) // 8 + 3):
                if bs >= 0:
                    jobs.append(('int_algo', dict(op='bytes', w=w, bs=bs, order=order)))
    for w in (8, 40, 70):
        jobs.append(('int_algo', dict(op='bits', w=w)))
    for w in (8, 33, 64):
        jobs.append(('int_algo', dict(op='arith', w=w)))
    for w in (4, 6, 8):
        jobs.append(('int_algo', dict(op='divmod', w=w)))
    for w in (4, 5):        # w = 6: z3 answers unknown on the symbolic-modulus power chain (measured): outside
        jobs.append(('int_algo', dict(op='pow', w=w)))
    for p in (3, 5, 7, 11, 13, 17, 29, 41, 73, 97, 113) if th else (3, 7, 13, 17, 41, 97):
        jobs.append(('int_algo', dict(op='modsqrt', p=p, w=8)))
    primes = [p for p in range(7, 256) if all(p % d for d in range(2, 16) if d < p)]
    for p in primes if th else primes[::4] + [193, 241, 251]:
        jobs.append(('mr_prime', dict(p=p, iters=1, draws=3)))
    for p in (13, 17, 97, 193) if th else (17, 97):
        jobs.append(('mr_prime', dict(p=p, iters=2, draws=4)))
    odd = list(range(9, 256, 2)) if th else [9, 15, 21, 25, 49, 65, 85, 91, 121, 133, 145, 169, 217, 221, 231, 247, 255, 13, 97, 193, 241]
    for n in odd + [561, 1105, 1729, 2047]:
        for impl in ('primality', 'legacy'):
            jobs.append(('mr_round', dict(n=n, impl=impl)))
    for n in range(1, 18) if th else (1, 7, 8, 9, 16, 17):
        for words in sorted(set([max(1, (n + 7) // 8 - 1), (n + 7) // 8, (n + 7) // 8 + 1])):
            jobs.append(('conv_c', dict(dir='b2w', n=n, words=words)))
    for words in (1, 2, 3) if th else (1, 2):
        for n in sorted(set([1, 8 * words - 1, 8 * words, 8 * words + 1, 8 * words - 8 or 1])):
            jobs.append(('conv_c', dict(dir='w2b', n=n, words=words)))
    for n in (1, 7, 8, 9, 16, 17, 24, 32, 33, 40, 64, 65) if th else (1, 8, 9, 17, 32, 33):
        jobs.append(('modexp_c', dict(fn='pow', n=n, elen=min(n, 3))))
        jobs.append(('modexp_c', dict(fn='mul', n=n)))
        if n > 1:
            jobs.append(('modexp_c', dict(fn='pow', n=n, elen=1, lead=True)))
    for e in (0, 1, 2):
        jobs.append(('modexp_c', dict(fn='pow', n=9, e=e)))
    jobs.append(('modexp_c', dict(fn='pow', n=16, elen=16)))
    for n, last in ((1, 0), (1, 1), (1, 2), (8, 2), (9, 0), (16, 4)):
        jobs.append(('modexp_refuse', dict(n=n, last=last)))
    # (moduli 251 / 65521 and a 9-bit base were tried in the thorough tier: z3 answers unknown on the reduced-base path: outside)
    for m in (7, 257, (1 << 64) + 13):
        for wb, we in ((3, 4), (4, 17), (17, 3)):
            if m > (1 << 64):
                continue        # powers over a 9-byte modulus: z3 does not finish reliably (measured): only the product below
            jobs.append(('custom_glue', dict(op='pow', wb=wb, we=we, wm=0, m=m)))
        jobs.append(('custom_glue', dict(op='mul', wb=9, we=17, wm=0, m=m)))
    jobs.append(('custom_glue', dict(op='pow', wb=4, we=4, wm=4)))
    jobs.append(('custom_glue', dict(op='pow', wb=4, we=4, wm=4, esigned=True, msigned=True)))
    jobs.append(('custom_glue', dict(op='mul', wb=4, we=4, wm=4, msigned=True)))
    for m in (8, 256):
        jobs.append(('custom_glue', dict(op='pow', wb=5, we=9, wm=0, m=m)))
        jobs.append(('custom_glue', dict(op='mul', wb=5, we=5, wm=0, m=m)))
    # the linear multi-word kernels of bignum.c with all limbs symbolic (shared with C06)
    jobs += [j for j in _c06().shapes(tier) if j[0] == 'bignum']
    return jobs


BOUNDS = dict(int_algo="operands: every value of the stated reduced width (4..16 bits for the looping algorithms, up to 72 bits for conversions, sizes, shifts and "
              "operators), negative values where the operation accepts them; every block size / byte order; modular square roots for 6 (thorough 11) prime moduli",
              mr="every prime below 2^8 (quick: every fourth), 1..2 iterations, every random tape with up to 2 rejected draws; one round vs the strong-probable-prime predicate for every base of every odd n below 2^8 (quick: 21 values) and 561, 1105, 1729, 2047",
              conv="byte lengths 1..17 (quick: 1,7,8,9,16,17), word counts around the exact fit; words -> bytes for 1..2 (3) words",
              modexp="CONCRETE operands of 1..65 bytes (quick 1..33) at word boundaries, exponents 0, 1, 2, 3-byte and full-length, leading zero bytes",
              outside=["exactness of mont_mult_* / addmul128 / square / product for ALL operands (wide symbolic multiplication is not SMT-decidable here); modexp_c "
                       "only covers the operands it runs", "the GMP back-end (binary library)", "GMP glue (_IntegerGMP.py: ctypes memory management)",
                       "composites declared composite (probabilistic over the bases), Lucas test, prime generation", "operands of real cryptographic size for the "
                       "looping Python algorithms (same code, more iterations)"])
ASSUMPTIONS = ["reduced width: the Python algorithms do not depend on the operand width other than through their loop counts",
               "IntegerNative.__bool__ and pow() are served by exact reduced-width shims during symbolic execution (props/c05._small_int_shims)",
               "malloc succeeds"]
EXPLANATION = ("bounded symbolic execution (PYSYM) of the real pure-Python integer algorithms with reduced-width solver variables against their mathematical "
               "definitions, Miller-Rabin on primes for every random tape, (LLSYM) the real C byte/word conversions with all bytes symbolic; plus the real "
               "modexp C on concrete operands under the bounds-checking interpreter")
