"""C04 -- signatures verify after signing; verify rejects all that the standard rejects.

Engine: PYSYM on the real Signature/eddsa.py, DSS.py, pss.py, pkcs1_15.py (+ asn1, ECC/DSA/RSA key
classes) with the group / RSA primitive and the hashes uninterpreted.
"""
from vlib.env import Harness

L25519 = 2 ** 252 + 27742317777372353535851937790883648493
L448 = 2 ** 446 - 13818066809895115352007386748515426880336692474882178609894547503885
ED = dict(Ed25519=dict(n=32, L=L25519, low=["26e8958fc2b227b045c3f489f2ef98f0d5dfac05d3c63339b13802886d53fc05",
                                            "c7176a703d4dd84fba3c0b760d10670f2a2053fa2c39ccc64ec7fd7792ac037a"]),
          Ed448=dict(n=57, L=L448, low=[(bytes(56) + b"\x80").hex(), bytes(57).hex(),
                                        ((2 ** 448 - 2 ** 224 - 2).to_bytes(57, 'little')).hex()]))
# a full-order public key per curve: RFC 8032 7.1 TEST 1 / 7.4 blank-message key
FULL = dict(Ed25519="d75a980182b10ab7d54bfed3c964073a0ee172f3daa62325af021a68f707511a",
            Ed448="5fd7449b59b461fd2ce787ec616ad46a1da1342485a70e1f8a0ea75d80e96778edf124769b46c7061bd6783df1e50f6cd1fa1abeafe8256180")


def _identity(curve):
    return (1).to_bytes(ED[curve]['n'], 'little')


def run_eddsa_srange(env, sh):
    """S must satisfy 0 <= S < L (RFC 8032 5.1.7 / 5.2.7) whatever the key and R."""
    from Crypto.Signature import eddsa
    curve = sh['curve']
    n, L = ED[curve]['n'], ED[curve]['L']
    env.abstract_wide_arith(128)
    key = eddsa.import_public_key(bytes.fromhex(sh['key']))
    ver = eddsa.new(key, 'rfc8032', context=bytes(sh.get('ctx', 0)) or None)
    S = env.bytes('S', n)
    Sv = env.P.b2i(S, 'little')
    # Every S >= L lies in one of two ranges; splitting keeps the byte length of the scalar handed to
    # the native multiplication fixed (the library encodes scalars at minimal length, which would
    # otherwise fork once per possible length).  S < 2^(bits(L)-1) < L needs no claim.
    b = L.bit_length()
    if sh['range'] == 'near':
        env.assume(env.And(Sv >= (1 << (b - 1)), Sv < (1 << b)))
    else:
        env.assume(Sv >= (1 << b))
    msg = env.bytes('msg', sh['mlen'])
    sig = env.P.concat(bytes.fromhex(sh['R']), S)
    try:
        ver.verify(msg, sig)
        ok = True
    except ValueError:
        ok = False
    if ok:
        env.check(Sv < L, 'accepted => S < L')
    else:
        env.check(True, 'rejected')


def run_eddsa_len(env, sh):
    from Crypto.Signature import eddsa
    curve = sh['curve']
    key = eddsa.import_public_key(bytes.fromhex(FULL[curve]))
    ver = eddsa.new(key, 'rfc8032')
    sig = env.bytes('sig', sh['slen'])
    msg = env.bytes('msg', 3)
    try:
        ver.verify(msg, sig)
        env.check(False, 'a signature of the wrong length is refused')
    except ValueError:
        env.check(True, 'refused')


# ------------------------------------------------------------------ RSA signatures (RFC 8017 s8, s9)

DIGESTINFO = dict(SHA1=bytes.fromhex("3021300906052b0e03021a05000414"), SHA256=bytes.fromhex("3031300d060960864801650304020105000420"))
DIGESTINFO_NONULL = dict(SHA1=bytes.fromhex("301f300706052b0e03021a0414"), SHA256=bytes.fromhex("302f300b0609608648016503040201" "0420"))
HLEN = dict(SHA1=20, SHA256=32)


def _hash(name, msg):
    import importlib
    return importlib.import_module("Crypto.Hash." + name).new(msg)


class StubRsa(object):
    """RSA key whose public/private operation is an arbitrary function (uninterpreted):
    verify-side: _encrypt(sig_int) returns the symbolic integer chosen by the harness"""

    def __init__(self, nbits, em_int=None, env=None):
        self.n = (1 << nbits) - 1 - 2 * 7 if nbits > 8 else 251
        self.n |= 1 << (nbits - 1)
        self.e = 65537
        self.em_int = em_int
        self.env = env
        self.enc_calls = []
        self.dec_calls = []

    def has_private(self):
        return True

    def _encrypt(self, x):
        self.enc_calls.append(x)
        return self.em_int

    def _decrypt_to_bytes(self, x):
        self.dec_calls.append(x)
        raise _Captured()


class _Captured(BaseException):
    pass


def _mgf1(P, hname, seed, n):
    h = HLEN[hname]
    t = [P.hash(hname, P.concat(seed, c.to_bytes(4, 'big')), h) for c in range((n + h - 1) // h)]
    return P.concat(*t)[:n] if t else P.const(b"")


def _clear_left(env, b0, nbits):
    """first byte with its `nbits` leftmost bits cleared"""
    return b0 & (0xFF >> nbits)


def run_pss_encode(env, sh):
    from Crypto.Signature import pss
    P = env.P
    hname, slen, embits = sh['hash'], sh['slen'], sh['embits']
    h = HLEN[hname]
    msg = env.bytes('msg', sh['mlen'])
    mh = _hash(hname, msg)
    draws = []

    def rnd(n):
        b = env.bytes('salt', int(n))
        draws.append(b)
        return b
    emlen = (embits + 7) // 8
    try:
        em = pss._EMSA_PSS_ENCODE(mh, embits, rnd, lambda x, y: pss.MGF1(x, y, mh), slen)
    except ValueError:
        env.check(emlen < h + slen + 2, 'encoding error only when emLen < hLen + sLen + 2')
        return
    env.check(emlen >= h + slen + 2, 'encoding error when emLen < hLen + sLen + 2')
    salt = draws[0] if draws else P.const(b"")
    env.check(len(draws) == 1 and len(salt) == slen, 'exactly one salt of sLen bytes is drawn')
    mhash = P.hash(hname, msg, h)
    H = P.hash(hname, P.concat(bytes(8), mhash, salt), h)
    db = P.concat(bytes(emlen - slen - h - 2), b"\x01", salt)
    mdb = P.xor(db, _mgf1(P, hname, H, emlen - h - 1))
    z = 8 * emlen - embits
    mdb = P.concat(P.i2b(_clear_left(env, mdb[0], z), 1), mdb[1:])
    env.check(em == P.concat(mdb, H, b"\xbc"), 'EM == maskedDB (leftmost 8emLen-emBits bits zero) || H || bc  (RFC 8017 9.1.1)')
    env.check(mh.digest() == mhash, 'the hash object still yields the message digest (not consumed)')
    # and the verifier accepts what the encoder produced
    try:
        pss._EMSA_PSS_VERIFY(mh, em, embits, lambda x, y: pss.MGF1(x, y, mh), slen)
    except ValueError:
        env.check(False, 'EMSA-PSS-VERIFY accepts the output of EMSA-PSS-ENCODE')


def run_pss_verify(env, sh):
    from Crypto.Signature import pss
    P = env.P
    hname, slen, embits = sh['hash'], sh['slen'], sh['embits']
    h = HLEN[hname]
    msg = env.bytes('msg', 2)
    mh = _hash(hname, msg)
    emlen = (embits + 7) // 8
    em = env.bytes('em', emlen)
    try:
        pss._EMSA_PSS_VERIFY(mh, em, embits, lambda x, y: pss.MGF1(x, y, mh), slen)
        ok = True
    except ValueError:
        ok = False
    if emlen < h + slen + 2:
        env.check(not ok, 'inconsistent when emLen < hLen + sLen + 2')
        return
    z = 8 * emlen - embits
    mdb, H, bc = em[:emlen - h - 1], em[emlen - h - 1:emlen - 1], em[emlen - 1]
    left_zero = (mdb[0] >> (8 - z)) == 0 if z else True
    db = P.xor(mdb, _mgf1(P, hname, H, emlen - h - 1))
    db = P.concat(P.i2b(_clear_left(env, db[0], z), 1), db[1:])
    pslen = emlen - h - slen - 2
    salt = db[pslen + 1:]
    good = env.And(bc == 0xBC, left_zero, db[:pslen] == bytes(pslen), db[pslen] == 1,
                   H == P.hash(hname, P.concat(bytes(8), P.hash(hname, msg, h), salt), h))
    env.iff(ok, good, 'EMSA-PSS-VERIFY is consistent exactly per RFC 8017 9.1.2 steps 3-14')


def run_pss_wrapper(env, sh):
    """sign()/verify() wrappers: emBits = modBits - 1, k = ceil(modBits/8), length check, I2OSP"""
    from Crypto.Signature import pss
    P = env.P
    nbits, hname = sh['nbits'], 'SHA1'
    h = HLEN[hname]
    k = (nbits + 7) // 8
    emlen = (nbits - 1 + 7) // 8
    msg = env.bytes('msg', 1)
    mh = _hash(hname, msg)
    em_int = env.int('em_int', nbits - 1)
    key = StubRsa(nbits, em_int)
    sig = env.bytes('sig', sh.get('siglen', k))
    ver = pss.new(key, salt_bytes=sh['slen'])
    try:
        ver.verify(mh, sig)
        ok = True
    except ValueError:
        ok = False
    if sh.get('siglen', k) != k:
        env.check(not ok, 'a signature whose length is not k is refused')
        return
    env.check(len(key.enc_calls) == 1 and key.enc_calls[0] == P.b2i(sig), 'the public operation is applied to OS2IP(signature)')
    if ok:
        # accepted => EM = I2OSP(m, emLen) exists and is consistent with emBits = modBits - 1
        env.check(em_int < (1 << (8 * emlen)), 'accepted => the integer fits in emLen bytes')
        em = P.i2b(em_int, emlen)
        try:
            pss._EMSA_PSS_VERIFY(mh, em, nbits - 1, lambda x, y: pss.MGF1(x, y, mh), sh['slen'])
        except ValueError:
            env.check(False, 'accepted => EMSA-PSS-VERIFY(M, I2OSP(m, emLen), modBits-1) is consistent')
    # sign side: the encoded message handed to the private operation
    draws = []
    signer = pss.PSS_SigScheme(key, None, sh['slen'], lambda n: draws.append(env.bytes('salt', int(n))) or draws[-1])
    try:
        signer.sign(mh)
    except _Captured:
        em_signed = P.i2b(key.dec_calls[-1], emlen) if True else None
        try:
            pss._EMSA_PSS_VERIFY(mh, em_signed, nbits - 1, lambda x, y: pss.MGF1(x, y, mh), sh['slen'])
        except ValueError:
            env.check(False, 'what sign() feeds to the private key is a consistent EMSA-PSS encoding for modBits-1')
        env.check(key.dec_calls[-1] < (1 << (nbits - 1)), 'the encoded message is below 2^(modBits-1)')
    except ValueError:
        env.check(emlen < h + sh['slen'] + 2, 'sign refuses only when the key is too small for hash and salt')


def _ref_emsa_v15(P, hname, digest, k, null=True):
    di = (DIGESTINFO if null else DIGESTINFO_NONULL)[hname]
    t = P.concat(di, digest)
    return P.concat(b"\x00\x01", b"\xff" * (k - len(t) - 3), b"\x00", t)


def run_v15_sig(env, sh):
    from Crypto.Signature import pkcs1_15
    P = env.P
    hname, nbits = sh['hash'], sh['nbits']
    h = HLEN[hname]
    k = (nbits + 7) // 8
    msg = env.bytes('msg', 2)
    mh = _hash(hname, msg)
    digest = P.hash(hname, msg, h)
    tlen = len(DIGESTINFO[hname]) + h
    em_int = env.int('em_int', nbits)
    key = StubRsa(nbits, em_int)
    sig = env.bytes('sig', sh.get('siglen', k))
    try:
        pkcs1_15.new(key).verify(mh, sig)
        ok = True
    except ValueError:
        ok = False
    if sh.get('siglen', k) != k:
        env.check(not ok, 'a signature whose length is not k is refused')
        return
    if k < tlen + 11:
        env.check(not ok, 'intended encoded message length too short => invalid')
        return
    env.check(key.enc_calls[0] == P.b2i(sig), 'the public operation is applied to OS2IP(signature)')
    e1 = P.b2i(_ref_emsa_v15(P, hname, digest, k, True))
    e2 = P.b2i(_ref_emsa_v15(P, hname, digest, k, False))
    env.iff(ok, env.Or(em_int == e1, em_int == e2),
            'verify accepts iff EM equals the EMSA-PKCS1-v1_5 encoding (DigestInfo with or without NULL parameters)')
    # sign: deterministic, exactly the RFC 8017 9.2 encoding with NULL parameters
    try:
        pkcs1_15.new(key).sign(mh)
    except _Captured:
        env.check(key.dec_calls[-1] == e1, 'sign() feeds EMSA-PKCS1-v1_5-ENCODE(M, k) (NULL parameters present) to the private key')
    env.check(mh.digest() == digest, 'the hash object is not consumed')


# ------------------------------------------------------------------ DSS (FIPS 186-4 / RFC 6979)

class StubDsaKey(object):
    def __init__(self, env, q):
        self.env, self.q = env, q
        self.verify_calls = []
        self.sign_calls = []
        self.verdict = None

    def has_private(self):
        return True

    def _verify(self, z, rs):
        self.verify_calls.append((z, rs))
        if self.verdict is None:
            self.verdict = self.env.bool('verdict')       # the group equation: an arbitrary outcome
        return self.verdict

    def _sign(self, z, k):
        self.sign_calls.append((z, k))
        r, s = self.env.int('r_out', self.q.bit_length()), self.env.int('s_out', self.q.bit_length())
        if isinstance(r, int):
            r, s = r % self.q, s % self.q          # concrete replay: the primitive returns values below q
        return (r, s)


def _iv(x):
    v = getattr(x, '_value', None)
    return v if v is not None else int(x)


def _scheme(env, q, encoding, hname='SHA256'):
    from Crypto.Signature import DSS
    from Crypto.Math.Numbers import Integer
    key = StubDsaKey(env, q)
    sch = DSS.DeterministicDsaSigScheme(key, encoding, Integer(q), Integer(3))
    return sch, key


def _ref_der_int(P, v, nbytes):
    return P.concat(b"\x02", bytes([nbytes]), P.i2b(v & ((1 << (8 * nbytes)) - 1), nbytes))


def run_dss_verify_bin(env, sh):
    P = env.P
    q = sh['q']
    ob = (q.bit_length() - 1) // 8 + 1
    sch, key = _scheme(env, q, 'binary')
    msg = env.bytes('msg', 2)
    mh = _hash('SHA256', msg)
    sig = env.bytes('sig', sh.get('siglen', 2 * ob))
    try:
        sch.verify(mh, sig)
        ok = True
    except ValueError:
        ok = False
    if len(sig) != 2 * ob:
        env.check(not ok, 'wrong length refused')
        return
    r, s = P.b2i(sig[:ob]), P.b2i(sig[ob:])
    in_range = env.And(r > 0, r < q, s > 0, s < q)
    if ok:
        env.check(in_range, 'accepted => 0 < r, s < q')
        z, (rr, ss) = key.verify_calls[0]
        env.check(env.And(_iv(rr) == r, _iv(ss) == s), 'the verification equation is evaluated on the decoded (r, s)')
        env.check(_iv(z) == P.b2i(P.hash('SHA256', msg, 32)[:ob]), 'z == leftmost order_bytes of the digest')
        env.check(key.verdict, 'accepted => the verification equation holds')
    else:
        env.check(env.Not(env.And(in_range, key.verdict)) if key.verdict is not None else env.Not(in_range),
                  'rejected => out of range or the equation fails')


def run_dss_verify_der(env, sh):
    """every byte string of the given length offered as a DER signature (small order so that all
    structurally valid encodings fit in the length bound)"""
    P = env.P
    q = sh['q']
    sch, key = _scheme(env, q, 'der')
    msg = env.bytes('msg', 1)
    mh = _hash('SHA256', msg)
    sig = env.bytes('sig', sh['n'])
    try:
        sch.verify(mh, sig)
        ok = True
    except ValueError:
        ok = False
    if not ok:
        env.check(True, 'rejected')
        return
    z, (rr, ss) = key.verify_calls[0]
    r, s = _iv(rr), _iv(ss)
    env.check(env.And(r > 0, r < q, s > 0, s < q), 'accepted => 0 < r, s < q')
    # canonical: the accepted string is exactly the minimal DER of SEQUENCE { INTEGER r, INTEGER s }
    cases = []
    for lr in (1, 2, 3):
        for ls in (1, 2, 3):
            if 2 + 2 + lr + 2 + ls != sh['n']:
                continue
            minimal = env.And(r >= (1 << (8 * (lr - 1) - 1)) if lr > 1 else True, r < (1 << (8 * lr - 1)),
                              s >= (1 << (8 * (ls - 1) - 1)) if ls > 1 else True, s < (1 << (8 * ls - 1)))
            enc = P.concat(b"\x30", bytes([4 + lr + ls]), _ref_der_int(P, r, lr), _ref_der_int(P, s, ls))
            cases.append(env.And(minimal, sig == enc))
    env.check(env.Or(*cases) if cases else False, 'accepted => the input is the minimal definite DER of SEQUENCE{INTEGER r, INTEGER s}, nothing trailing')
    env.check(key.verdict, 'accepted => the verification equation holds')


def run_dss_sign(env, sh):
    P = env.P
    q = sh['q']
    ob = (q.bit_length() - 1) // 8 + 1
    sch, key = _scheme(env, q, sh['encoding'])
    sch._compute_nonce = lambda mh: 5            # nonce derivation is checked separately
    msg = env.bytes('msg', 2)
    mh = _hash('SHA256', msg)
    out = sch.sign(mh)
    r, s = None, None
    z, k = key.sign_calls[0]
    env.check(_iv(z) == P.b2i(P.hash('SHA256', msg, 32)[:ob]), 'z == leftmost order_bytes of the digest')
    ro, so = env.int('r_out', q.bit_length()), env.int('s_out', q.bit_length())
    if not isinstance(ro, int):
        env.assume(env.And(ro < q, so < q))          # the primitive returns values below q
    else:
        ro, so = ro % q, so % q
    if sh['encoding'] == 'binary':
        env.check(out == P.concat(P.i2b(ro, ob), P.i2b(so, ob)), 'binary signature == I2OSP(r) || I2OSP(s), each order_bytes long')
    else:
        from Crypto.Util.asn1 import DerSequence
        back = DerSequence().decode(out, strict=True)
        env.check(len(back) == 2, 'DER signature is a SEQUENCE of two members')
        env.check(env.And(back[0] == ro, back[1] == so), 'DER signature decodes (strictly) to (r, s)')
    env.check(mh.digest() == P.hash('SHA256', msg, 32), 'the hash object is not consumed')


HARNESSES = dict(pss_encode=Harness('pss_encode', run_pss_encode), pss_verify=Harness('pss_verify', run_pss_verify),
                 pss_wrapper=Harness('pss_wrapper', run_pss_wrapper), v15_sig=Harness('v15_sig', run_v15_sig),
                 dss_verify_bin=Harness('dss_verify_bin', run_dss_verify_bin), dss_verify_der=Harness('dss_verify_der', run_dss_verify_der, max_paths=30000),
                 dss_sign=Harness('dss_sign', run_dss_sign),
                 eddsa_srange=Harness('eddsa_srange', run_eddsa_srange), eddsa_len=Harness('eddsa_len', run_eddsa_len))


def shapes(tier):
    th = tier == 'thorough'
    jobs = []
    for curve in ('Ed25519', 'Ed448'):
        n = ED[curve]['n']
        keys = ED[curve]['low'] + [FULL[curve]]
        for k in keys:
            for R in (_identity(curve).hex(), FULL[curve]):
                for mlen in ((0, 1, 32) if th else (1,)):
                    for rg in ('near', 'far'):
                        jobs.append(('eddsa_srange', dict(curve=curve, key=k, R=R, mlen=mlen, range=rg)))
        jobs.append(('eddsa_srange', dict(curve=curve, key=keys[0], R=_identity(curve).hex(), mlen=1, ctx=3, range='near')))
        for slen in (0, 1, n, 2 * n - 1, 2 * n + 1):
            jobs.append(('eddsa_len', dict(curve=curve, slen=slen)))
    # RSASSA-PSS: every value of 8*emLen - emBits (0..7), salt lengths around the limits
    for z in range(8):
        for slen in ((0, 1, 20) if th else (0, 20)):
            emlen = 20 + slen + 2 + (3 if th else 1)
            jobs.append(('pss_encode', dict(hash='SHA1', slen=slen, embits=8 * emlen - z, mlen=3)))
            jobs.append(('pss_verify', dict(hash='SHA1', slen=slen, embits=8 * emlen - z)))
    for slen, emlen in ((20, 41), (20, 42), (0, 21), (0, 22)):
        jobs.append(('pss_encode', dict(hash='SHA1', slen=slen, embits=8 * emlen, mlen=0)))
        jobs.append(('pss_verify', dict(hash='SHA1', slen=slen, embits=8 * emlen - 1)))
    for nbits in ((336, 337, 338, 343, 344, 345) if th else (337, 344, 345)):
        jobs.append(('pss_wrapper', dict(nbits=nbits, slen=20)))
    jobs.append(('pss_wrapper', dict(nbits=344, slen=20, siglen=42)))
    jobs.append(('pss_wrapper', dict(nbits=344, slen=20, siglen=44)))
    for hname, tl in (('SHA1', 35), ('SHA256', 51)):
        for k in ((tl + 11, tl + 12, tl + 20) if th else (tl + 11, tl + 13)):
            jobs.append(('v15_sig', dict(hash=hname, nbits=8 * k)))
            if th:
                jobs.append(('v15_sig', dict(hash=hname, nbits=8 * k - 7)))
        jobs.append(('v15_sig', dict(hash=hname, nbits=8 * (tl + 12), siglen=tl + 11)))
    # DSS
    P256_Q = 115792089210356248762697446949407573529996955224135760342422259061068512044369
    for q in (P256_Q, 65521, 257, (1 << 160) - 47):
        jobs.append(('dss_verify_bin', dict(q=q)))
        ob = (q.bit_length() - 1) // 8 + 1
        jobs.append(('dss_verify_bin', dict(q=q, siglen=2 * ob - 1)))
        jobs.append(('dss_verify_bin', dict(q=q, siglen=2 * ob + 1)))
        for enc in ('binary', 'der'):
            if enc == 'der' and q.bit_length() > 64:
                continue        # DER INTEGER encoding forks once per byte length of r and of s
            jobs.append(('dss_sign', dict(q=q, encoding=enc)))
    for n in (range(0, 13) if th else (6, 8, 9, 10)):
        jobs.append(('dss_verify_der', dict(q=65521, n=n)))
    return jobs


BOUNDS = dict(eddsa="S: all 2^(8n) encodings (symbolic); R in {identity, a full-order point}; public key in {low-order points, "
              "a full-order key}; message <= 32 bytes",
              outside=["the group law and modular arithmetic (C code)", "hash compression functions"])
ASSUMPTIONS = ["EC group abstract (vlib/pysym/ecnat.py): the verification equation is an uninterpreted verdict",
               "SHA-512 / SHAKE256 whole-message uninterpreted functions"]
EXPLANATION = ("bounded symbolic execution (PYSYM) of the real verify()/sign() glue with the group/RSA primitive and hashes "
               "uninterpreted; z3 decides that acceptance implies the standard's decoding/range predicates")
