"""C04 -- signatures verify after signing; verify rejects all that the standard rejects.

Engine: PYSYM on the real Signature/eddsa.py, DSS.py, pss.py, pkcs1_15.py (+ asn1, ECC/DSA/RSA key
classes) with the group / RSA primitive and the hashes uninterpreted.
"""
from vlib.env import Harness

L25519 = 2 ** 252 + 27742317777372353535851937790883648493
L448 = 2 ** 446 - 13818066809895115352007386748515426880336692474882178609894547503885
ED = dict(Ed25519=dict(n=32, L=L25519, low=["26e8958fc2b227b045c3f489f2ef98f0d5dfac05d3c63339b13802886d53fc05",
                                            "c7176a703d4dd84fba3c0b760d10670f2a2053fa2c39ccc64ec7fd7792ac037a"]),
          Ed448=dict(n=57, L=L448, low=[(bytes(56) + b"\x80").hex(), bytes(57).hex(),
                                        ((2 ** 448 - 2 ** 224 - 2).to_bytes(57, 'little')).hex()]))
# a full-order public key per curve: RFC 8032 7.1 TEST 1 / 7.4 blank-message key
FULL = dict(Ed25519="d75a980182b10ab7d54bfed3c964073a0ee172f3daa62325af021a68f707511a",
            Ed448="5fd7449b59b461fd2ce787ec616ad46a1da1342485a70e1f8a0ea75d80e96778edf124769b46c7061bd6783df1e50f6cd1fa1abeafe8256180")


def _identity(curve):
    return (1).to_bytes(ED[curve]['n'], 'little')


def run_eddsa_srange(env, sh):
    """S must satisfy 0 <= S < L (RFC 8032 5.1.7 / 5.2.7) whatever the key and R."""
    from Crypto.Signature import eddsa
    curve = sh['curve']
    n, L = ED[curve]['n'], ED[curve]['L']
    env.abstract_wide_arith(128)
    key = eddsa.import_public_key(bytes.fromhex(sh['key']))
    ver = eddsa.new(key, 'rfc8032', context=bytes(sh.get('ctx', 0)) or None)
    S = env.bytes('S', n)
    Sv = env.P.b2i(S, 'little')
    # Every S >= L lies in one of two ranges; splitting keeps the byte length of the scalar handed to
    # the native multiplication fixed (the library encodes scalars at minimal length, which would
    # otherwise fork once per possible length).  S < 2^(bits(L)-1) < L needs no claim.
    b = L.bit_length()
    if sh['range'] == 'near':
        env.assume(env.And(Sv >= (1 << (b - 1)), Sv < (1 << b)))
    else:
        env.assume(Sv >= (1 << b))
    msg = env.bytes('msg', sh['mlen'])
    sig = env.P.concat(bytes.fromhex(sh['R']), S)
    try:
        ver.verify(msg, sig)
        ok = True
    except ValueError:
        ok = False
    if ok:
        env.check(Sv < L, 'accepted => S < L')
    else:
        env.check(True, 'rejected')


def run_eddsa_len(env, sh):
    from Crypto.Signature import eddsa
    curve = sh['curve']
    key = eddsa.import_public_key(bytes.fromhex(FULL[curve]))
    ver = eddsa.new(key, 'rfc8032')
    sig = env.bytes('sig', sh['slen'])
    msg = env.bytes('msg', 3)
    try:
        ver.verify(msg, sig)
        env.check(False, 'a signature of the wrong length is refused')
    except ValueError:
        env.check(True, 'refused')


HARNESSES = dict(eddsa_srange=Harness('eddsa_srange', run_eddsa_srange), eddsa_len=Harness('eddsa_len', run_eddsa_len))


def shapes(tier):
    th = tier == 'thorough'
    jobs = []
    for curve in ('Ed25519', 'Ed448'):
        n = ED[curve]['n']
        keys = ED[curve]['low'] + [FULL[curve]]
        for k in keys:
            for R in (_identity(curve).hex(), FULL[curve]):
                for mlen in ((0, 1, 32) if th else (1,)):
                    for rg in ('near', 'far'):
                        jobs.append(('eddsa_srange', dict(curve=curve, key=k, R=R, mlen=mlen, range=rg)))
        jobs.append(('eddsa_srange', dict(curve=curve, key=keys[0], R=_identity(curve).hex(), mlen=1, ctx=3, range='near')))
        for slen in (0, 1, n, 2 * n - 1, 2 * n + 1):
            jobs.append(('eddsa_len', dict(curve=curve, slen=slen)))
    return jobs


BOUNDS = dict(eddsa="S: all 2^(8n) encodings (symbolic); R in {identity, a full-order point}; public key in {low-order points, "
              "a full-order key}; message <= 32 bytes",
              outside=["the group law and modular arithmetic (C code)", "hash compression functions"])
ASSUMPTIONS = ["EC group abstract (vlib/pysym/ecnat.py): the verification equation is an uninterpreted verdict",
               "SHA-512 / SHAKE256 whole-message uninterpreted functions"]
EXPLANATION = ("bounded symbolic execution (PYSYM) of the real verify()/sign() glue with the group/RSA primitive and hashes "
               "uninterpreted; z3 decides that acceptance implies the standard's decoding/range predicates")
