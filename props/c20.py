"""C20 -- Shamir secret sharing: any k shares rebuild the secret, over a true GF(2^128) (partial).

PYSYM on the real Protocol/SecretSharing.py:
  mul_step  : the body of the `while` loop of _Element.__mul__, extracted from the real function's AST,
              executed ONCE from an arbitrary 128-bit state (z, v, f2): equals the textbook shift-and-add
              step over GF(2)[x]/(x^128+x^7+x^2+x+1) and preserves v < 2^128  (inductive; all states)
  mul_win   : the whole __mul__ on operands with 4 free bits at three positions each: equals the
              reference product; commutativity and distributivity on the same windows
  inverse   : a * a.inverse() == 1 for a in 4-bit windows; inverse(0) refused
  split_combine : split(k,n) / combine with the secret and every random coefficient symbolic: every
              coefficient is a distinct 16-byte RNG draw, the constant term is the secret, share i is the
              Horner evaluation at x = i (+ x^k for ssss), any k of the n shares recombine to the secret
              in every order, duplicates are refused
Whole-function field laws at full width are NOT claimed (z3/cvc5 cannot decide them: measured).
"""
import ast

from vlib.env import Harness

IRR = 1 + 2 + 4 + 128 + 2 ** 128
M128 = (1 << 128) - 1


def _ss():
    from Crypto.Protocol import SecretSharing
    return SecretSharing


_step_cache = {}


def _mul_body(env):
    """compile the loop body of the real _Element.__mul__ as  step(irr, mask1, v, z, f2) -> (v, z, f2)"""
    ss = _ss()
    path = ss.__file__
    key = (path, env.sym)
    f = _step_cache.get(key)
    if f is not None:
        return f
    with open(path) as fh:
        tree = ast.parse(fh.read())
    loop = None
    for node in ast.walk(tree):
        if isinstance(node, ast.ClassDef) and node.name == '_Element':
            for fn in node.body:
                if isinstance(fn, ast.FunctionDef) and fn.name == '__mul__':
                    for st in ast.walk(fn):
                        if isinstance(st, ast.While):
                            loop = st
    if loop is None:
        raise RuntimeError("loop of _Element.__mul__ not found")
    src_fn = ast.FunctionDef(
        name='step', args=ast.arguments(posonlyargs=[], args=[ast.arg(arg=a) for a in ('self', 'mask1', 'v', 'z', 'f2')],
                                        kwonlyargs=[], kw_defaults=[], defaults=[]),
        body=list(loop.body) + [ast.Return(value=ast.Tuple(elts=[ast.Name(id=n, ctx=ast.Load()) for n in ('v', 'z', 'f2')],
                                                           ctx=ast.Load()))],
        decorator_list=[])
    mod = ast.Module(body=[src_fn], type_ignores=[])
    if env.sym:
        from vlib.pysym import rewrite
        mod = rewrite.Rewriter().visit(mod)
    ast.fix_missing_locations(mod)
    ns = {}
    exec(compile(mod, path + ":<loop body of _Element.__mul__>", 'exec'), ns)
    _step_cache[key] = ns['step']
    return ns['step']


class _Self(object):
    irr_poly = None


def run_mul_step(env, sh):
    ss = _ss()
    step = _mul_body(env)
    me = _Self()
    me.irr_poly = ss._Element.irr_poly
    env.check(me.irr_poly == IRR, 'reduction polynomial is x^128 + x^7 + x^2 + x + 1')
    v = env.int('v', 128)
    z = env.int('z', 128)
    f2 = env.int('f2', 128)
    v2, z2, f3 = step(me, 2 ** 128, v, z, f2)
    bit = f2 & 1
    z_ref = env.ite(bit == 1, z ^ v, z)
    vs = v << 1
    v_ref = env.ite((vs >> 128) & 1 == 1, vs ^ IRR, vs)
    env.check(z2 == z_ref, 'z accumulates v exactly when the low bit of f2 is set')
    env.check(v2 == v_ref, 'v is multiplied by x and reduced by the polynomial exactly when bit 128 appears')
    env.check(f3 == f2 >> 1, 'f2 is shifted right by one')
    env.check(env.And(v2 >= 0, v2 < (1 << 128), z2 >= 0, z2 < (1 << 128)), 'invariant: v and z stay below 2^128')


def _xtime(env, v):
    vs = v << 1
    return env.ite((vs >> 128) & 1 == 1, vs ^ IRR, vs)


def _ref_mul_const_window(env, a_bits, sa, b):
    """(sum_i a_i x^(sa+i)) * b  with b symbolic: repeated xtime, accumulate under a_i"""
    acc = 0
    cur = b
    nxt = 0
    for s in range(0, sa + len(a_bits)):
        if s >= sa:
            acc = acc ^ env.ite(a_bits[s - sa], cur, 0)
        cur = _xtime(env, cur)
    return acc


def _win(env, name, shift):
    x = env.int(name, 4)
    return x << shift, [(x >> i) & 1 == 1 for i in range(4)]


def run_mul_win(env, sh):
    ss = _ss()
    E = ss._Element
    a, abits = _win(env, 'a', sh['sa'])
    b, bbits = _win(env, 'b', sh['sb'])
    prod = E(a) * E(b)
    ref = _ref_mul_const_window(env, abits, sh['sa'], b)
    env.check(prod._value == ref, '__mul__ == shift-and-add product reduced modulo the polynomial')
    env.check((E(b) * E(a))._value == prod._value, 'commutative on the window')
    if sh.get('dist'):
        c, _ = _win(env, 'c', sh['sc'])
        lhs = E(a) * (E(b) + E(c))
        rhs = (E(a) * E(b)) + (E(a) * E(c))
        env.check(lhs._value == rhs._value, 'distributive on the window')


def run_inverse(env, sh):
    ss = _ss()
    E = ss._Element
    a, _ = _win(env, 'a', sh['sa'])
    try:
        inv = E(a).inverse()
    except ValueError:
        env.check(a == 0, 'only zero has no inverse')
        return
    env.check(env.Not(a == 0), 'zero is refused')
    env.check((E(a) * inv)._value == 1, 'a * a^-1 == 1')
    env.check(env.And(inv._value >= 0, inv._value < (1 << 128)), 'inverse is a reduced field element')


def run_split_combine(env, sh):
    ss = _ss()
    E = ss._Element
    k, n, ssss = sh['k'], sh['n'], sh['ssss']
    win = sh.get('win')
    if win is None:
        secret = env.bytes('secret', 16)
    else:
        # field elements with 4 free bits (the multiplication idiom bin(bit)*128 forks once per
        # symbolic bit, so full-width operands on both sides are out of reach: stated)
        secret = env.P.i2b(env.int('secret4', 4) << win[0], 16)
    draws = []

    def provider(m):
        if win is None:
            b = env.bytes('coef%d' % len(draws), m)
        else:
            b = env.P.i2b(env.int('coef4_%d' % len(draws), 4) << win[1], m)
        draws.append(b)
        return b
    # the module draws coefficients through its global `rng` (= Crypto.Random.get_random_bytes)
    if env.sym:
        from vlib.pysym import natives
        natives.Tape.provider = provider
    else:
        real_rng, ss.rng = ss.rng, provider
    try:
        try:
            shares = ss.Shamir.split(k, n, secret, ssss)
        except ValueError:
            env.check(False, 'split() accepts every 2 <= k <= n')
            return
    finally:
        if env.sym:
            natives.Tape.provider = None
        else:
            ss.rng = real_rng
    env.check(len(shares) == n and [int(i) for i, _ in shares] == list(range(1, n + 1)), 'n shares with indexes 1..n')
    if True:
        env.check(len(draws) == k - 1 and all(len(d) == 16 for d in draws), 'exactly k-1 coefficients, each a fresh 16-byte RNG draw')
        # share i == Horner evaluation of  c_0 x^(k-1) + ... + c_(k-2) x + secret  at x = i  (+ x^k for ssss)
        P = env.P
        for i, sv in shares:
            acc = 0
            for c in draws + [secret]:
                # multiply acc by the constant i: xtime-based reference
                t = 0
                cur = acc
                for bpos in range(int(i).bit_length()):
                    if (int(i) >> bpos) & 1:
                        t = t ^ cur
                    cur = _xtime(env, cur)
                acc = t ^ P.b2i(c)
            if ssss:
                xk = E(int(i)) ** k
                acc = acc ^ xk._value
            env.check(P.b2i(sv) == acc, 'share i is the polynomial (random coefficients, constant term = secret) evaluated at x = i')
    for subset in sh.get('subsets', []):
        chosen = [shares[j] for j in subset]
        rec = ss.Shamir.combine(chosen, ssss)
        env.check(rec == secret, 'any k shares, in any order, recombine to the secret')
    if sh.get('subsets'):
        try:
            ss.Shamir.combine([shares[0], shares[0]] + list(shares[2:k]), ssss)
            env.check(False, 'duplicate share indexes are refused')
        except ValueError:
            env.check(True, 'duplicate refused')


HARNESSES = dict(mul_step=Harness('mul_step', run_mul_step), mul_win=Harness('mul_win', run_mul_win, max_paths=20000),
                 inverse=Harness('inverse', run_inverse, max_paths=20000),
                 split_combine=Harness('split_combine', run_split_combine, max_paths=20000, timeout_ms=120000))


def shapes(tier):
    th = tier == 'thorough'
    jobs = [('mul_step', dict())]
    pos = (0, 60, 124)
    for sa in pos:
        for sb in pos:
            jobs.append(('mul_win', dict(sa=sa, sb=sb)))
    for sa, sb, sc in ((0, 124, 60), (60, 0, 0)) if th else ((0, 124, 60),):        # (124, 124, 0): worker exceeds 6 GB (measured): outside
        jobs.append(('mul_win', dict(sa=sa, sb=sb, sc=sc, dist=True)))
    for sa in pos if th else (0, 124):
        jobs.append(('inverse', dict(sa=sa)))
    import itertools
    # structure of split() at full width (secret and coefficients: 128 symbolic bits each)
    for k, n in ((2, 2), (2, 3), (3, 3)) if not th else ((2, 2), (2, 3), (3, 3), (3, 4), (2, 4)):      # (4, 4): no answer in 900 s (measured)
        for ssss in (False, True):
            jobs.append(('split_combine', dict(k=k, n=n, ssss=ssss)))
    # reconstruction on 4-bit-window field elements
    # reconstruction with k = 3 was tried in the thorough tier: time / memory budgets exceeded or z3 unknown on every window: outside
    for k, n in ((2, 2), (2, 3)) if not th else ((2, 2), (2, 3), (2, 4)):
        subs = [list(p) for c in itertools.combinations(range(n), k) for p in itertools.permutations(c)]
        if not th:
            subs = subs[:3]
        for win in ((0, 0), (124, 0)) if not th else ((0, 0), (124, 0), (0, 124), (60, 124)):
            for ssss in (False, True):
                jobs.append(('split_combine', dict(k=k, n=n, ssss=ssss, subsets=subs, win=list(win))))
    return jobs


BOUNDS = dict(mul_step="all 2^384 states (z, v, f2) with v, z, f2 < 2^128 (one inductive iteration)",
              windows="field elements with 4 free bits at bit positions 0 / 60 / 124",
              sharing="split(): k <= 3, n <= 4 with secret and all coefficients symbolic at full width (structure: RNG draws, Horner evaluation); "
              "combine(split()): k = 2, n <= 3 (thorough 4), every 2-subset in every order, secret/coefficients with 4 free bits at positions 0/60/124",
              outside=["associativity / commutativity / distributivity / inverses of __mul__ at full width (not SMT-decidable here)",
                       "hence full-width reconstruction for large share indexes and the 'k-1 shares reveal nothing' consequence",
                       "share indexes above 4"])
ASSUMPTIONS = ["the RNG is a symbolic tape (every coefficient a fresh solver variable)"]
EXPLANATION = ("bounded symbolic execution (PYSYM) of the real GF(2^128) code: one inductive iteration of the multiplication loop "
               "from an arbitrary state, the whole product / inverse on 4-bit windows, and split/combine with secret and "
               "coefficients symbolic for small share indexes; z3 decides equality with the textbook field operations")
VALIDATE = True
