"""C19 -- objects are independent, sequentially and across threads; inputs never mutated (partial).

What is decided here (LLSYM, shared drivers of C17/C03/C11/C07):
* frame condition of every encoded C entry point: among caller-visible memory only the object's own
  state and the designated output buffers are written; input buffers, keys, IVs and ALL module globals
  are untouched (no writable statics).  Two live objects therefore have disjoint write sets by
  construction, which is a non-interference argument for sequential AND concurrent use of distinct
  objects -- not an exploration of thread schedules;
* copy(): *_copy duplicates the whole native state, the clone and the original then evolve
  independently (digest of each equals the reference for its own message), destroying one leaves the
  other usable.
Thread interleavings, the curve-registry lock and first-use races are NOT reachable with these engines.
"""
from props import c17, c03, c11, c07
from vlib.env import Harness
from vlib.llsym import kern
from props.ecc_c import run_ec_scalar_mem, ec_scalar_shapes, EC_UNIT


# ---- Python level: copy() continues independently (CMAC keeps its partial block in Python)

def _mk(env, kind, key):
    if kind.startswith('cmac'):
        from Crypto.Hash import CMAC
        from Crypto.Cipher import AES, DES3
        return lambda: CMAC.new(key, ciphermod=AES if kind == 'cmac_aes' else DES3)
    if kind == 'hmac':
        from Crypto.Hash import HMAC, SHA256
        return lambda: HMAC.new(key, digestmod=SHA256)
    if kind == 'hmac_sha1':
        from Crypto.Hash import HMAC, SHA1
        return lambda: HMAC.new(key, digestmod=SHA1)
    import importlib
    mod = importlib.import_module('Crypto.Hash.' + kind)
    if kind.startswith('BLAKE2'):
        return lambda: mod.new(digest_bytes=32, key=key)
    return lambda: mod.new()


def run_copy_indep(env, sh):
    kind = sh['kind']
    P = env.P
    key = env.bytes('key', 16)
    if kind == 'cmac_des3':
        # a symbolic 3DES key may degenerate to single DES (refused by the library): fixed two-key 3DES key
        key = bytes.fromhex("0123456789abcdef23456789abcdef01")
    mk = _mk(env, kind, key)
    a, b1, b2 = env.bytes('a', sh['a']), env.bytes('b1', sh['b1']), env.bytes('b2', sh['b2'])
    h = mk()
    h.update(a)
    c = h.copy()
    for who in sh['order']:
        if who == 'h':
            h.update(b1)
        elif who == 'c':
            c.update(b2)
        elif who == 'H':            # a digest in between must not disturb either object
            h.digest() if not kind.startswith('BLAKE2') else None
        elif who == 'x':            # a second-generation copy, then the intermediate object goes away
            c2 = c.copy()
            del c
            c = c2
    r1 = mk()
    r1.update(P.concat(a, b1) if 'h' in sh['order'] else a)
    r2 = mk()
    r2.update(P.concat(a, b2) if 'c' in sh['order'] else a)
    dh, dc = h.digest(), c.digest()
    env.check(dh == r1.digest(), 'original after copy(): digest == digest of its own message only')
    env.check(dc == r2.digest(), 'clone: digest == digest of its own message only')


# ---- C level: hash modules outside the C03 table (MD2, MD4, BLAKE2b, BLAKE2s): frame condition and copy

HF = dict(MD2=dict(cfile='MD2.c', pfx='md2', dig=16, concrete_data=True), MD4=dict(cfile='MD4.c', pfx='md4', dig=16),
          BLAKE2b=dict(cfile='blake2b.c', pfx='blake2b', dig=64, blake=True), BLAKE2s=dict(cfile='blake2s.c', pfx='blake2s', dig=32, blake=True))


def run_hash_frame(env, sh):
    """init / update / copy / digest of two live objects: among caller-visible memory only the objects' own
    state and the digest buffers are written (no module global: no writable static), digest() does not
    change the state (repeatable), and the two objects do not influence each other"""
    d = HF[sh['hash']]
    K = kern.kernel(env, d['cfile'])
    pfx = d['pfx']

    def new(tag):
        slot = K.ptr_slot()
        if d.get('blake'):
            r = K.call(pfx + '_init', slot, K.buf(env.bytes('key' + tag, 4), False, 'key' + tag), 4, d['dig'])
        else:
            r = K.call(pfx + '_init', slot)
        env.check(r == 0, 'init succeeds')
        return K.deref(slot)
    if d.get('concrete_data'):
        # MD2: every byte indexes the S-box 18 times per block; with symbolic data each lookup is a 256-way
        # ite (measured: > 240 s per block).  The frame condition does not depend on the byte values (the
        # control flow is data-independent), so the data is concrete here -- stated
        m1, m2 = bytes(range(7, 7 + sh['n1'])), bytes(range(100, 100 + sh['n2']))
    else:
        m1, m2 = env.bytes('m1', sh['n1']), env.bytes('m2', sh['n2'])
    h1 = new('1')
    K.reset_written()
    env.check(K.call(pfx + '_update', h1, K.buf(m1, False, 'm1'), len(m1)) == 0, 'update succeeds')
    o_alone = K.out(d['dig'], 'digest_alone')
    env.check(K.call(pfx + '_digest', h1, o_alone) == 0, 'digest succeeds')
    alone = K.read(o_alone, d['dig'])
    # a second object is created, fed, copied and destroyed in between
    h2 = new('2')
    env.check(K.call(pfx + '_update', h2, K.buf(m2, False, 'm2'), len(m2)) == 0, 'update succeeds')
    h3 = new('3')
    env.check(K.call(pfx + '_copy', h2, h3) == 0, 'copy succeeds')
    o2 = K.out(d['dig'], 'digest2')
    K.call(pfx + '_digest', h2, o2)
    K.call(pfx + '_destroy', h2)
    o3 = K.out(d['dig'], 'digest3')
    K.call(pfx + '_digest', h3, o3)
    env.check(K.read(o3, d['dig']) == K.read(o2, d['dig']), 'the clone yields the digest of the original, also after the original is destroyed')
    o_again = K.out(d['dig'], 'digest_again')
    env.check(K.call(pfx + '_digest', h1, o_again) == 0, 'digest succeeds')
    env.check(K.read(o_again, d['dig']) == alone, 'digest() is repeatable and unaffected by the life of other objects')
    K.check_frame(('digest', 'pResult', 'slot'), 'only object state and digest buffers are written: inputs and ALL module globals untouched (no writable static)')
    K.call(pfx + '_destroy', h1)
    K.call(pfx + '_destroy', h3)
    K.check_memory_safe()
    env.check(K.live_heap() == [], 'every state is released')


# ---- C level: EC point operations do not write the shared curve context or the other operand

def run_ec_frame(env, sh):
    """ec_ws_add / ec_ws_double / ec_ws_neg / ec_ws_scalar / ec_ws_cmp / ec_ws_get_xy on a generic-modulus curve:
    the EcContext (shared by every point of the curve and by all threads) and the second operand are
    never written; everything allocated by the call is released again.  Concrete coordinates (the control
    flow of these functions is data-independent up to the scalar bits; wide symbolic products are out of
    reach and irrelevant to a frame condition) -- stated."""
    from vlib.models import ecref
    from Crypto.PublicKey import ECC
    K = kern.kernel(env, EC_UNIT)
    if env.sym:
        K.m.step_budget = 50000000          # concrete data: a whole scalar multiplication is a few million IR steps
    name = sh['curve']
    c = ECC._curves[name]
    n = (int(c.p).bit_length() + 7) // 8
    cur = ecref.Curve('ws', name, int(c.p), n, b=int(c.b), order=int(c.order))
    G = (int(c.Gx), int(c.Gy))
    Q = ecref.generic_smul(lambda A, B: ecref.ws_add(cur, A, B), (0, 0), 5, G)
    slot = K.ptr_slot()
    r = K.call('ec_ws_new_context', slot, K.buf(int(c.p).to_bytes(n, 'big'), False, 'p'), K.buf(int(c.b).to_bytes(n, 'big'), False, 'b'),
               K.buf(int(c.order).to_bytes(n, 'big'), False, 'order'), n, 0x1122334455667788)
    env.check(r == 0, 'context created')
    ctx = K.deref(slot)
    ctx_ids = K.heap_ids()

    def point(P, tag):
        before = K.heap_ids()
        sl = K.ptr_slot()
        rr = K.call('ec_ws_new_point', sl, K.buf(P[0].to_bytes(n, 'big'), False, 'x' + tag), K.buf(P[1].to_bytes(n, 'big'), False, 'y' + tag), n, ctx)
        env.check(rr == 0, 'point created')
        return K.deref(sl), K.heap_ids() - before
    A, a_ids = point(G, 'A')
    B, b_ids = point(Q, 'B')
    live0 = K.heap_ids()
    add = lambda X, Y: ecref.ws_add(cur, X, Y)
    val = G                                   # value of A according to the textbook formulas
    for op in sh['ops']:
        K.reset_written()
        if op == 'add':
            val = add(val, Q)
        elif op == 'double':
            val = add(val, val)
        elif op == 'neg':
            val = (val[0], (-val[1]) % cur.p) if val != (0, 0) else val
        elif op == 'scalar':
            val = ecref.generic_smul(add, (0, 0), 0x0135, val)
        if op == 'add':
            r = K.call('ec_ws_add', A, B)
        elif op == 'double':
            r = K.call('ec_ws_double', A)
        elif op == 'neg':
            r = K.call('ec_ws_neg', A)
        elif op == 'cmp':
            r = K.call('ec_ws_cmp', A, B)
            r = 0
        elif op == 'get_xy':
            r = K.call('ec_ws_get_xy', K.out(n, 'outx'), K.out(n, 'outy'), n, A)
        elif op == 'scalar':
            r = K.call('ec_ws_scalar', A, K.buf(bytes([0x01, 0x35]), False, 'k'), 2, 0x0123456789ABCDEF)
        else:
            raise KeyError(op)
        env.check(r == 0, '%s succeeds' % op)
        w = K.heap_written(ctx_ids)
        env.check(not w, '%s does not write the shared curve context [written: %s]' % (op, ", ".join(w)))
        w = K.heap_written(b_ids)
        env.check(not w, '%s does not write its second operand [written: %s]' % (op, ", ".join(w)))
        if op in ('cmp', 'get_xy'):
            w = K.heap_written(a_ids)
            env.check(not w, '%s does not write the point it reads [written: %s]' % (op, ", ".join(w)))
        env.check(K.heap_ids() == live0, '%s releases everything it allocates' % op)
        K.check_frame(('out', 'pResult', 'slot'), 'no caller buffer other than the outputs and no module global is written')
    ox, oy = K.out(n, 'outx_final'), K.out(n, 'outy_final')
    env.check(K.call('ec_ws_get_xy', ox, oy, n, A) == 0, 'get_xy succeeds')
    P = env.P
    env.check(P.b2i(K.read(ox, n)) == val[0] and P.b2i(K.read(oy, n)) == val[1], 'the point computed by the C code == textbook group law on the same operands')
    K.check_memory_safe()


OWN = dict(copy_indep=Harness('copy_indep', run_copy_indep), hash_frame=Harness('hash_frame', run_hash_frame, timeout_ms=120000),
           ec_frame=Harness('ec_frame', run_ec_frame, budget_s=900), ec_scalar_mem=Harness('ec_scalar_mem', run_ec_scalar_mem, budget_s=900))
HARNESSES = dict(c17.HARNESSES)
HARNESSES.update(OWN)


def own_shapes(tier):
    th = tier == 'thorough'
    jobs = []
    kinds = ('cmac_aes', 'cmac_des3', 'hmac', 'hmac_sha1', 'SHA256', 'SHA1', 'MD5', 'SHA3_256', 'SHA512', 'RIPEMD160')
    for kind in kinds:
        bs = 8 if kind == 'cmac_des3' else 16
        for a in (0, 5, bs, bs + 5) if th else (5, bs):
            for b1 in (0, bs - 5, bs - 4, 2 * bs - 5) if th else (bs - 5, 2 * bs - 5):
                for b2 in (3, bs + 4):
                    for order in ('hc', 'ch', 'hHc', 'cxh') if th else ('hc', 'cxh'):
                        jobs.append(('copy_indep', dict(kind=kind, a=a, b1=b1, b2=b2, order=order)))
    for hname in HF:
        B = 16 if hname == 'MD2' else (128 if hname == 'BLAKE2b' else 64)
        for n1, n2 in ((0, 1), (B - 1, B + 1), (B, 3)) if not th else ((0, 1), (B - 1, B + 1), (B, 3), (2 * B + 1, B), (1, 0)):
            jobs.append(('hash_frame', dict(hash=hname, n1=n1, n2=n2)))
    for curve in ('P-192', 'P-224', 'P-256', 'P-384', 'P-521') if th else ('P-192', 'P-256', 'P-521'):
        jobs.append(('ec_frame', dict(curve=curve, ops=['add', 'double', 'neg', 'cmp', 'get_xy', 'add'])))
        if th or curve == 'P-192':
            jobs.append(('ec_frame', dict(curve=curve, ops=['scalar'])))
    return jobs


def shapes(tier):
    jobs = own_shapes(tier)
    jobs += [j for j in c17.own_shapes(tier) if j[1].get('alias', 'none') == 'none']
    jobs += [j for j in c03.shapes(tier) if j[1].get('copy_at') is not None or j[1].get('copy')]
    jobs += [j for j in c03.shapes(tier) if j[0] == 'md' and len(j[1]['segs']) == 1][::3]
    jobs += [j for j in c11.shapes(tier) if j[0] == 'ctr_stream' and sum(j[1].get('calls', [0])) < 300][::2]
    jobs += [j for j in c07.shapes(tier) if j[0] in ('pkcs1_decode', 'oaep_decode')][::2]
    return jobs


BOUNDS = dict(frame="every entry point of the C17 kernel list, non-aliased shapes; MD2/MD4/BLAKE2b/BLAKE2s init/update/copy/digest/destroy with two live objects; "
              "ec_ws add/double/neg/cmp/get_xy/scalar on P-192/P-256/P-521 (thorough: all five NIST curves) with the shared EcContext and the second operand as read-only frame",
              copy="C: SHA-2 family, SHA-1, MD5, RIPEMD-160, keccak, MD2, MD4, BLAKE2: copy at any segment boundary; Python: CMAC (AES, 3DES), HMAC, SHA-1/256/512, "
              "MD5, SHA3-256, RIPEMD-160: update / copy / update of both in either order with lengths around the block size, second-generation copies",
              outside=["actual thread interleavings (2..16 threads)", "the _Curves registry lock and first-use races (no engine here explores schedules)",
                       "Ed25519/Ed448/Curve25519/Curve448 point functions, modexp", "Python-level argument immutability beyond the C09/C17 buffer checks",
                       "GIL release behaviour of cffi", "EC frame checks use concrete coordinates (data-independent control flow); MD2 uses concrete message bytes"])
ASSUMPTIONS = list(c17.ASSUMPTIONS)
EXPLANATION = ("frame conditions and copy-independence of the real C (LLSYM): z3-backed symbolic execution shows that no entry point "
               "writes caller inputs or module globals for any byte contents, hence distinct objects cannot interfere; thread "
               "schedules themselves are outside the claim")
VALIDATE = False
