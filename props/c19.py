"""C19 -- objects are independent, sequentially and across threads; inputs never mutated (partial).

What is decided here (LLSYM, shared drivers of C17/C03/C11/C07):
* frame condition of every encoded C entry point: among caller-visible memory only the object's own
  state and the designated output buffers are written; input buffers, keys, IVs and ALL module globals
  are untouched (no writable statics).  Two live objects therefore have disjoint write sets by
  construction, which is a non-interference argument for sequential AND concurrent use of distinct
  objects -- not an exploration of thread schedules;
* copy(): *_copy duplicates the whole native state, the clone and the original then evolve
  independently (digest of each equals the reference for its own message), destroying one leaves the
  other usable.
Thread interleavings, the curve-registry lock and first-use races are NOT reachable with these engines.
"""
from props import c17, c03, c11, c07

HARNESSES = c17.HARNESSES


def shapes(tier):
    jobs = [j for j in c17.own_shapes(tier) if j[1].get('alias', 'none') == 'none']
    jobs += [j for j in c03.shapes(tier) if j[1].get('copy_at') is not None or j[1].get('copy')]
    jobs += [j for j in c03.shapes(tier) if j[0] == 'md' and len(j[1]['segs']) == 1][::3]
    jobs += [j for j in c11.shapes(tier) if j[0] == 'ctr_stream' and sum(j[1].get('calls', [0])) < 300][::2]
    jobs += [j for j in c07.shapes(tier) if j[0] in ('pkcs1_decode', 'oaep_decode')][::2]
    return jobs


BOUNDS = dict(frame="every entry point of the C17 kernel list, non-aliased shapes", copy="SHA-2 family, SHA-1, MD5, RIPEMD-160, keccak: copy at any segment boundary",
              outside=["actual thread interleavings (2..16 threads)", "the _Curves registry lock and first-use races", "C files outside the C17 kernel list",
                       "Python-level argument immutability (being added)", "GIL release behaviour of cffi"])
ASSUMPTIONS = list(c17.ASSUMPTIONS)
EXPLANATION = ("frame conditions and copy-independence of the real C (LLSYM): z3-backed symbolic execution shows that no entry point "
               "writes caller inputs or module globals for any byte contents, hence distinct objects cannot interfere; thread "
               "schedules themselves are outside the claim")
VALIDATE = False
