"""C06 -- EC arithmetic follows the group law; ECDH / X25519 / X448 secrets are correct (partial).

What is decided here, and by what:
  PYSYM over the abstract commutative group of vlib/pysym/ecnat.py (scalar multiplication and addition are
  uninterpreted functions with the group facts the property needs: results on the curve and reduced,
  addition commutes, a(bQ) = b(aQ), the neutral element is the identity):
    dh_roles     : Crypto.Protocol.DH.key_agreement for every supported static/ephemeral combination with all
                   private scalars symbolic: both parties obtain the same Z, Z = Ze || Zs with each part the
                   encoded x-coordinate of (own private) * (peer public) as SP 800-56A / RFC 7748 pair them
    dh_refusals  : unsupported combinations, missing kdf, wrong key kinds / curves, neutral result
    point_ops    : the Python operator layer of EccPoint / EccXPoint (copy-vs-in-place, scalar encoding handed
                   to C, negation, equality, neutral-element conventions) for symbolic points and scalars
  LLSYM on the real C field kernels that are linear (no wide multiplication), all limbs symbolic:
    f25519       : mod25519.c representation changes (8-bit / 64-bit / 25.5-bit limbs), add_25519, sub_25519,
                   add32, reduce_25519_le25p5, reduce_25519_le64, is_le25p5_zero, cswap; curve448.c cswap
    bignum       : bignum.c ge / sub / add_mod / sub_mod / mod_select for 1..3 words (shared with C14)
NOT claimed: the multiplication-based kernels (mul_25519, mont_mult_*, the projective formulas, the scalar
multiplication loops, the tables): 256-bit modular multiplication identities are not decidable by z3/cvc5
within any budget measured here.
"""
import itertools

from props import ecc_c

from vlib.env import Harness, Skip

NB = {'P-192': 24, 'P-224': 28, 'P-256': 32, 'P-384': 48, 'P-521': 66, 'Curve25519': 32, 'Curve448': 56, 'Ed25519': 32, 'Ed448': 57}
MONT = ('Curve25519', 'Curve448')


def _iv(x):
    v = getattr(x, '_value', None)
    return v if v is not None else int(x)


def _sym_key(env, curve, name):
    if curve.startswith('Ed'):
        from Crypto.PublicKey import ECC
        return ECC.construct(curve=curve, seed=env.bytes(name + '_seed', NB[curve]))
    from props.c15 import _sym_key as k
    return k(env, curve, name)


def _zpart(env, curve, priv, pub):
    """encoded x-coordinate of priv.d * pub.Q (RFC 7748 little-endian for X curves, SP 800-56A I2OSP otherwise)"""
    P = env.P
    pt = pub.pointQ * priv.d
    if curve in MONT:
        return P.i2b(_iv(pt.x), NB[curve], 'little')
    return P.i2b(_iv(pt.x), NB[curve])


# role matrix: name -> (U's keyword arguments, V's keyword arguments, [(privU, pubV) for Ze], [(privU, pubV) for Zs])
# keys: sU/eU/sV/eV private; SU/EU/SV/EV the matching public keys
MODES = {
    'C(2e,2s)': (dict(static_priv='sU', static_pub='SV', eph_priv='eU', eph_pub='EV'),
                 dict(static_priv='sV', static_pub='SU', eph_priv='eV', eph_pub='EU'), ('eU', 'EV'), ('sU', 'SV')),
    'C(2e,0s)': (dict(eph_priv='eU', eph_pub='EV'), dict(eph_priv='eV', eph_pub='EU'), ('eU', 'EV'), None),
    'C(1e,2s)': (dict(static_priv='sU', static_pub='SV', eph_priv='eU'),
                 dict(static_priv='sV', static_pub='SU', eph_pub='EU'), ('eU', 'SV'), ('sU', 'SV')),
    'C(1e,1s)': (dict(eph_priv='eU', static_pub='SV'), dict(static_priv='sV', eph_pub='EU'), ('eU', 'SV'), None),
    'C(0e,2s)': (dict(static_priv='sU', static_pub='SV'), dict(static_priv='sV', static_pub='SU'), None, ('sU', 'SV')),
}


def run_dh_roles(env, sh):
    from Crypto.Protocol import DH
    curve, mode = sh['curve'], sh['mode']
    argsU, argsV, ze, zs = MODES[mode]
    need = set(argsU.values()) | set(argsV.values())
    keys = {}
    for nm in ('sU', 'eU', 'sV', 'eV'):
        if nm in need or nm.upper() in need or (nm[0].upper() + nm[1]) in need:
            k = _sym_key(env, curve, nm)
            keys[nm] = k
            keys[nm[0].upper() + nm[1]] = k.public_key()
    ident = lambda z: z
    try:
        ZU = DH.key_agreement(kdf=ident, **dict((a, keys[v]) for a, v in argsU.items()))
        ZV = DH.key_agreement(kdf=ident, **dict((a, keys[v]) for a, v in argsV.items()))
    except ValueError:
        # neutral-element result: impossible for valid keys in the real (prime-order / clamped) groups;
        # the abstract group cannot exclude it -- path outside the model
        env.check(env.sym, 'key agreement between valid keys does not raise')
        env.assume(False)
        return
    parts = []
    for pr in (ze, zs):
        if pr is not None:
            parts.append(_zpart(env, curve, keys[pr[0]], keys[pr[1]]))
    ref = env.P.concat(*parts)
    env.check(len(ZU) == len(ref) and env.tobytes(ZU) == ref, 'party U: Z == Ze || Zs, each the encoded x-coordinate of d_own * Q_peer')
    env.check(env.tobytes(ZU) == env.tobytes(ZV), 'both parties derive the same shared secret')


def run_dh_refusals(env, sh):
    """argument-matrix logic of key_agreement (every subset of the four key arguments)"""
    from Crypto.Protocol import DH
    from Crypto.PublicKey import ECC
    curve = sh['curve']
    other = 'P-384' if curve != 'P-384' else 'P-256'
    k = dict(sU=ECC.construct(curve=curve, d=5) if curve not in MONT else ECC.construct(curve=curve, seed=bytes(range(NB[curve]))),
             eU=ECC.construct(curve=curve, d=7) if curve not in MONT else ECC.construct(curve=curve, seed=bytes(range(1, NB[curve] + 1))))
    k['SV'] = (ECC.construct(curve=curve, d=11) if curve not in MONT else ECC.construct(curve=curve, seed=bytes(range(2, NB[curve] + 2)))).public_key()
    k['EV'] = (ECC.construct(curve=curve, d=13) if curve not in MONT else ECC.construct(curve=curve, seed=bytes(range(3, NB[curve] + 3)))).public_key()
    ident = lambda z: bytes(z)
    names = dict(static_priv='sU', static_pub='SV', eph_priv='eU', eph_pub='EV')
    supported = {frozenset(m[0]) for m in MODES.values()} | {frozenset(m[1]) for m in MODES.values()}
    for r in range(0, 5):
        for sub in itertools.combinations(sorted(names), r):
            kw = dict((a, k[names[a]]) for a in sub)
            try:
                DH.key_agreement(kdf=ident, **kw)
                ok = True
            except ValueError:
                ok = False
            env.check(ok == (frozenset(sub) in supported), 'key_agreement(%s) is %s' % (','.join(sub), 'supported' if frozenset(sub) in supported else 'refused with ValueError'))
    # kdf is mandatory
    try:
        DH.key_agreement(static_priv=k['sU'], static_pub=k['SV'])
        env.check(False, 'kdf is mandatory')
    except ValueError:
        env.check(True, 'kdf missing refused')
    # a public key where a private one is required, and keys on different curves
    for kw in (dict(static_priv=k['SV'], static_pub=k['SV']), dict(eph_priv=k['EV'], eph_pub=k['EV']),
               dict(static_priv=k['sU'], static_pub=ECC.construct(curve=other, d=3).public_key()),
               dict(static_priv=k['sU'], static_pub=k['SV'], eph_priv=ECC.construct(curve=other, d=3), eph_pub=k['EV']),
               dict(static_priv=k['sU'], static_pub=b"not a key")):
        try:
            DH.key_agreement(kdf=ident, **kw)
            env.check(False, 'mismatched key kinds / curves are refused')
        except TypeError:
            env.check(True, 'refused with TypeError')
    # neutral element as the result is refused
    if curve in MONT:
        from Crypto.PublicKey._point import EccXPoint
        for u in (0, 1):
            pub = ECC.EccKey(curve=curve, point=EccXPoint(u, curve))
            try:
                DH.key_agreement(kdf=ident, static_priv=k['sU'], static_pub=pub)
                env.check(False, 'low-order peer value (neutral result) is refused')
            except ValueError:
                env.check(True, 'neutral result refused')
    else:
        from Crypto.PublicKey._point import EccPoint
        pub = ECC.EccKey(curve=curve, point=EccPoint(0, 0, curve))
        try:
            DH.key_agreement(kdf=ident, static_priv=k['sU'], static_pub=pub)
            env.check(False, 'peer point at infinity (neutral result) is refused')
        except ValueError:
            env.check(True, 'neutral result refused')


def _scalar(env, name, nbytes):
    k = env.int(name, 8 * nbytes)
    # full byte length: long_to_bytes() forks once per encoded length otherwise; shorter scalars are separate shapes
    env.assume(k >= (1 << (8 * (nbytes - 1))))
    return k


def run_point_ops(env, sh):
    from Crypto.PublicKey import ECC
    from Crypto.PublicKey._point import EccPoint, EccXPoint
    curve = sh['curve']
    mont = curve in MONT
    kP = _sym_key(env, curve, 'kP')
    P = kP.pointQ
    p = int(ECC._curves[curve].p)
    if sh['op'] == 'mul':
        k = _scalar(env, 'k', sh['kbytes'])
        x0 = _iv(P.x)
        y0 = None if mont else _iv(P.y)
        R = P * k
        env.check(_iv(P.x) == x0 and (mont or _iv(P.y) == y0), 'P * k leaves P unchanged')
        R2 = k * P
        env.check(R == R2, 'k * P == P * k')
        Q = P.copy()
        Q *= k
        env.check(Q == R, 'in-place and out-of-place multiplication agree')
        # the scalar handed to the C code is k itself (big-endian, minimal length)
        if env.sym:
            from vlib.pysym import ecnat, core
            import z3
            pt = R._point.get()
            env.check(pt.smul is not None, 'result comes from one native scalar multiplication')
            kb, base = pt.smul
            same = core.SymBool.make(kb == ecnat._cbv(k, ecnat.SCALAR_BITS))
            if curve.startswith('P-'):
                # prime-order group: k and k mod n denote the same multiple of every point (a wrapper may reduce)
                n_ord = int(ECC._curves[curve].order)
                same = env.Or(same, core.SymBool.make(kb == ecnat._cbv(k % n_ord, ecnat.SCALAR_BITS)))
            env.check(same, 'scalar passed to the native code == k (or k mod n on the prime-order curves)')
            bx = base.x
            env.check(bx == x0, 'multiplied point is P')
        else:
            # independent textbook arithmetic (vlib/pysym/ecnat.py) on the real library's result
            from vlib.models import ecref as ecnat
            c = _ref_curve(curve)
            if mont:
                r = ecnat.mont_ladder(c, k, x0 % p)
                if r is None:
                    env.check(R.is_point_at_infinity(), 'k * P is the neutral element')
                else:
                    env.check(_iv(R.x) == r, 'k * P == textbook Montgomery ladder')
            else:
                add = (lambda A, B: ecnat.ws_add(c, A, B)) if c.fam == 'ws' else (lambda A, B: ecnat.ed_add(c, A, B))
                zero = (0, 0) if c.fam == 'ws' else (0, 1)
                rx, ry = ecnat.generic_smul(add, zero, k, (x0, y0))
                env.check((_iv(R.x), _iv(R.y)) == (rx, ry), 'k * P == textbook double-and-add')
        try:
            P * (-k)
            env.check(False, 'negative scalars are refused')
        except ValueError:
            env.check(True, 'negative refused')
        return
    if sh['op'] == 'special':
        # scalars 0 and 1, the neutral element, order and order+1 (concrete scalars, symbolic point)
        O = P.point_at_infinity()
        env.check(O.is_point_at_infinity(), 'point_at_infinity() is the neutral element')
        # true in the real prime-order / clamped groups, not derivable in the abstract one: stated assumption
        env.assume(not P.is_point_at_infinity())
        env.check((P * 0).is_point_at_infinity(), '0 * P == O')
        env.check(P * 1 == P, '1 * P == P')
        env.check((O * 5).is_point_at_infinity(), 'k * O == O')
        if not mont:
            env.check(P + O == P and O + P == P, 'P + O == O + P == P')
            env.check(O + O == O, 'O + O == O')
            env.check((-O) == O, '-O == O')
        env.check(P == P.copy() and not (P != P.copy()), 'copy() equals the original')
        env.check(not (P == O), 'P != O')
        env.check(not (P == 5), 'comparison with a non-point is False')
        return
    if sh['op'] == 'loworder':
        # concrete low-order points (Edwards curves have cofactor 8 / 4): construction, neutral test, negation, copy,
        # addition, doubling and small multiples against the textbook formulas (vlib/models/ecref.py)
        from vlib.models import ecref
        c = _ref_curve(curve)
        add = lambda A, B: ecref.ed_add(c, A, B)
        if curve == 'Ed25519':
            i = pow(2, (p - 1) // 4, p)
            y8 = int.from_bytes(bytes.fromhex('26e8958fc2b227b045c3f489f2ef98f0d5dfac05d3c63339b13802886d53fc05'), 'little') & ((1 << 255) - 1)
            u, v = (y8 * y8 - 1) % p, (c.d * y8 * y8 + 1) % p
            x2 = u * pow(v, p - 2, p) % p
            x8 = pow(x2, (p + 3) // 8, p)
            if (x8 * x8 - x2) % p:
                x8 = x8 * i % p
            T = (x8, y8)
            order = 8
        else:
            T = (1, 0)
            order = 4
        assert ecref.ed_on_curve(c, *T)
        G = ECC._curves[curve].G
        g = (int(G.x), int(G.y))
        for k in range(order):
            L = ecref.generic_smul(add, (0, 1), k, T)
            try:
                Q = EccPoint(L[0], L[1], curve)
            except ValueError:
                env.check(False, 'the curve point %d*T of order dividing %d is accepted by EccPoint' % (k, order))
                continue
            env.check(Q.is_point_at_infinity() == (L == (0, 1)), 'is_point_at_infinity() is true exactly for the neutral element (%d*T)' % k)
            try:
                N = -Q
                env.check((int(N.x), int(N.y)) == ((-L[0]) % p, L[1]), '-(%d*T) == textbook negation' % k)
                C2 = Q.copy()
                env.check(C2 == Q, 'copy() of %d*T equals the original' % k)
                S = Q + G
                env.check((int(S.x), int(S.y)) == add(L, g), '%d*T + G == textbook sum' % k)
                D = Q.copy().double()
                env.check((int(D.x), int(D.y)) == add(L, L), 'double(%d*T) == textbook' % k)
                n_sub = int(ECC._curves[curve].order)       # order of the prime-order subgroup: scalars >= n on points outside it
                for m in (0, 1, 2, 3, order, order + 1, n_sub, n_sub + 1, 8 * n_sub + 3):
                    M = Q * m
                    env.check((int(M.x), int(M.y)) == ecref.generic_smul(add, (0, 1), m, L), '%d * (%d*T) == textbook multiple' % (m, k))
            except ValueError as e:
                env.check(False, 'arithmetic on the low-order point %d*T does not raise [%s]' % (k, e))
        return
    if sh['op'] == 'addneg':
        env.assume(not P.is_point_at_infinity())
        kQ = _sym_key(env, curve, 'kQ')
        Q = kQ.pointQ
        x0, y0 = _iv(P.x), _iv(P.y)
        S = P + Q
        env.check((_iv(P.x), _iv(P.y)) == (x0, y0), 'P + Q leaves P unchanged')
        env.check(S == Q + P, 'P + Q == Q + P')
        T = P.copy()
        T += Q
        env.check(T == S, 'in-place and out-of-place addition agree')
        N = -P
        env.check((_iv(P.x), _iv(P.y)) == (x0, y0), '-P leaves P unchanged')
        if curve.startswith('Ed'):
            env.check(env.And(_iv(N.y) == y0, (_iv(N.x) + x0) % p == 0), '-(x, y) == (-x, y) on Edwards curves')
        else:
            env.check(env.And(_iv(N.x) == x0, (_iv(N.y) + y0) % p == 0), '-(x, y) == (x, -y) on Weierstrass curves')
        env.check(-N == P, '-(-P) == P')
        env.check(env.eqv(P == Q, env.And(_iv(Q.x) == x0, _iv(Q.y) == y0)), 'P == Q exactly when the coordinates are equal')
        x, y = P.xy
        env.check(_iv(x) == x0 and _iv(y) == y0, 'xy == (x, y)')
        # a point rebuilt from coordinates is accepted and equal
        env.check(EccPoint(x, y, curve) == P, 'EccPoint(P.x, P.y) == P')
        return
    raise KeyError(sh['op'])


# ---------------------------------------------------------------- LLSYM: linear field kernels

def _wbuf(env, K, name, words, wbytes):
    return K.buf(env.P.concat(*[env.P.i2b(w, wbytes, 'little') for w in words]), True, name)


def _rwords(env, K, p, n, wbytes):
    return [env.P.b2i(K.read(p, wbytes, wbytes * i), 'little') for i in range(n)]


def _ref_curve(name):
    from Crypto.PublicKey import ECC
    from vlib.models import ecref
    fixed = {'Ed25519': ecref.ED25519, 'Ed448': ecref.ED448, 'Curve25519': ecref.X25519, 'Curve448': ecref.X448}
    if name in fixed:
        return fixed[name]
    c = ECC._curves[name]
    return ecref.Curve('ws', name, int(c.p), NB[name], b=int(c.b), order=int(c.order))


P25519 = 2 ** 255 - 19
W25 = (26, 25, 26, 25, 26, 25, 26, 25, 26, 25)
OFF25 = [sum(W25[:i]) for i in range(10)]
WOUT = W25[:9] + (26,)            # documented range of results: limb 9 may use 26 bits


def _val25(env, limbs, width=320):
    """value of a 25.5-bit-limb number: sum limb_i * 2^ceil(25.5 i)"""
    acc = 0
    for l, o in zip(limbs, OFF25):
        acc = acc + (l << o)
    return acc


def _congruent(env, big, small):
    """big == small (mod 2^255-19) for 0 <= small <= big < 2^300, without a solver-side division:
    the multiple c is determined by the difference (c * p = c * 2^255 - 19 c)"""
    diff = big - small
    c = env.ite(diff == 0, 0, (diff >> 255) + 1)
    return env.And(big >= small, diff == c * P25519)


def run_f25519(env, sh):
    from vlib.llsym import kern
    K = kern.kernel(env, 'mod25519.c', extra_macros=['STATIC='])
    fn = sh['fn']
    P = env.P
    if fn in ('le64_to_25p5', 'le8_to_25p5', 'be8_to_25p5'):
        if fn == 'le64_to_25p5':
            ws = [env.int('w%d' % i, 64) for i in range(4)]
            src = _wbuf(env, K, 'in', ws, 8)
            val = sum(w << (64 * i) for i, w in enumerate(ws))
            cname = 'convert_le64_to_le25p5'
        else:
            b = env.bytes('in', 32)
            src = K.buf(b, False, 'in')
            val = P.b2i(b, 'little' if fn == 'le8_to_25p5' else 'big')
            cname = 'convert_le8_to_le25p5' if fn == 'le8_to_25p5' else 'convert_be8_to_le25p5'
        out = K.out(40, 'out')
        K.call(cname, out, src)
        limbs = _rwords(env, K, out, 10, 4)
        env.check(_val25(env, limbs) == val, '%s: the 256-bit value is preserved' % cname)
        env.check(env.And(*[l < (1 << w) for l, w in zip(limbs, WOUT)]), '%s: every limb within its 26/25 bits (26 for the last)' % cname)
        K.check_memory_safe()
        return
    if fn in ('25p5_to_le64', '25p5_to_le8', '25p5_to_be8'):
        limbs = [env.int('l%d' % i, 32) for i in range(10)]
        # documented precondition of the converters: limbs below 2^26 / 2^25 (as produced by reduce_25519_le25p5)
        env.assume(env.And(*[l < (1 << w) for l, w in zip(limbs, WOUT)]))
        src = _wbuf(env, K, 'in', limbs, 4)
        v = _val25(env, limbs)
        if fn == '25p5_to_le64':
            out = K.out(32, 'out')
            K.call('convert_le25p5_to_le64', out, src)
            ws = _rwords(env, K, out, 4, 8)
            got = sum(w << (64 * i) for i, w in enumerate(ws))
            env.check(got == v, 'convert_le25p5_to_le64: value preserved (no reduction)')
        else:
            out = K.out(32, 'out')
            cname = 'convert_le25p5_to_le8' if fn == '25p5_to_le8' else 'convert_le25p5_to_be8'
            K.call(cname, out, src)
            got = P.b2i(K.read(out, 32), 'little' if fn == '25p5_to_le8' else 'big')
            # these two reduce modulo p first
            env.check(_congruent(env, v, got), '%s: output congruent to the input modulo 2^255-19' % cname)
            env.check(got < P25519, '%s: output fully reduced' % cname)
        K.check_memory_safe()
        return
    if fn in ('add_25519', 'sub_25519', 'add32'):
        f = [env.int('f%d' % i, 32) for i in range(10)]
        g = [env.int('g%d' % i, 32) for i in range(10)]
        if fn == 'sub_25519':
            # results of the other kernels (documented output range)
            # the subtrahend's top limb as mul_25519 / add_25519 / the converters (for values < p) produce it:
            # < 2^25 + 2^14.  The documented "x[9] < 2^26" is NOT sufficient: with b[9] = 2^26 - 1 and
            # a[9] = 0 the limb-wise  modulus_32[9] + a[9] - b[9]  wraps (solver witness, see DESIGN.md);
            # from Python that needed a coordinate >= p, which EccPoint now refuses
            env.assume(env.And(*[l < (1 << w) for l, w in zip(f, WOUT)]))
            env.assume(env.And(*[l < (1 << w) for l, w in zip(g[:9], W25)]))
            env.assume(g[9] < (1 << 25) + (1 << 14))
        else:
            lim = sh.get('limb_bits', 27)
            env.assume(env.And(*[l < (1 << lim) for l in f + g]))
        fb = _wbuf(env, K, 'f', f, 4)
        gb = _wbuf(env, K, 'g', g, 4)
        out = K.out(40, 'out')
        K.call(fn, out, fb, gb)
        o = _rwords(env, K, out, 10, 4)
        vf, vg, vo = _val25(env, f), _val25(env, g), _val25(env, o)
        vsum = _val25(env, [a + b for a, b in zip(f, g)])      # == vf + vg, grouped per limb as the code does
        if fn == 'add32':
            env.check(vo == vf + vg, 'add32: limb-wise sum, no carry lost for limbs below 2^31')
        elif fn == 'add_25519':
            env.check(_congruent(env, vsum, vo), 'add_25519: out == f + g (mod 2^255-19)')
            env.check(env.And(*[l < (1 << w) for l, w in zip(o, WOUT)]), 'add_25519: limbs of the result within the documented 26/25 bits')
        else:
            # 2p in limb form (what the code pre-adds so that no limb goes negative), grouped per limb as the code does
            M = (0x7ffffda, 0x3fffffe, 0x7fffffe, 0x3fffffe, 0x7fffffe, 0x3fffffe, 0x7fffffe, 0x3fffffe, 0x7fffffe, 0x3fffffe)
            assert sum(m << o_ for m, o_ in zip(M, OFF25)) == 2 * P25519
            env.check(env.And(*[m + a >= b for m, a, b in zip(M, f, g)]), 'sub_25519: no limb of 2p + f - g is negative')
            vdiff = _val25(env, [m + a - b for m, a, b in zip(M, f, g)])
            env.check(_congruent(env, vdiff, vo), 'sub_25519: out == 2p + f - g == f - g (mod 2^255-19)')
            env.check(env.And(*[l < (1 << w) for l, w in zip(o, WOUT)]), 'sub_25519: limbs of the result within the documented 26/25 bits')
        K.check_memory_safe()
        return
    if fn == 'reduce_le25p5':
        x = [env.int('x%d' % i, 32) for i in range(10)]
        env.assume(env.And(*[l < (1 << 28) for l in x]))          # documented: each limb < 2^28
        xb = _wbuf(env, K, 'x', x, 4)
        K.call('reduce_25519_le25p5', xb)
        o = _rwords(env, K, xb, 10, 4)
        v, vo = _val25(env, x), _val25(env, o)
        env.check(_congruent(env, v, vo), 'reduce_25519_le25p5: congruent modulo 2^255-19')
        env.check(env.And(*[l < (1 << w) for l, w in zip(o, WOUT)]), 'reduce_25519_le25p5: limbs of the result within the documented 26/25 bits')
        K.check_memory_safe()
        return
    if fn == 'reduce_le64':
        ws = [env.int('w%d' % i, 64) for i in range(4)]
        xb = _wbuf(env, K, 'x', ws, 8)
        K.call('reduce_25519_le64', xb)
        o = _rwords(env, K, xb, 4, 8)
        val = sum(w << (64 * i) for i, w in enumerate(ws))
        vo = sum(w << (64 * i) for i, w in enumerate(o))
        env.check(_congruent(env, val, vo), 'reduce_25519_le64: congruent modulo 2^255-19')
        env.check(vo < P25519, 'reduce_25519_le64: canonical representative')
        K.check_memory_safe()
        return
    if fn == 'is_zero':
        x = [env.int('x%d' % i, 32) for i in range(10)]
        env.assume(env.And(*[l < (1 << w) for l, w in zip(x, WOUT)]))
        xb = _wbuf(env, K, 'x', x, 4)
        r = K.call('is_le25p5_zero', xb)
        v = _val25(env, x)
        env.check(env.eqv(r != 0, env.Or(v == 0, v == P25519, v == 2 * P25519)), 'is_le25p5_zero: true exactly for representations of 0 modulo 2^255-19')
        K.check_memory_safe()
        return
    if fn == 'cswap':
        vals = [[env.int('%s%d' % (nm, i), 32) for i in range(10)] for nm in 'abcd']
        bufs = [_wbuf(env, K, nm, v, 4) for nm, v in zip('abcd', vals)]
        swap = env.int('swap', 1)
        K.call('cswap', bufs[0], bufs[1], bufs[2], bufs[3], swap)
        got = [_rwords(env, K, b, 10, 4) for b in bufs]
        for i in range(10):
            env.check(env.And(got[0][i] == env.ite(swap == 1, vals[2][i], vals[0][i]), got[2][i] == env.ite(swap == 1, vals[0][i], vals[2][i]),
                              got[1][i] == env.ite(swap == 1, vals[3][i], vals[1][i]), got[3][i] == env.ite(swap == 1, vals[1][i], vals[3][i])),
                      'cswap limb %d: (a,c) and (b,d) exchanged exactly when swap == 1' % i)
        K.check_memory_safe()
        return
    raise KeyError(fn)


def run_cswap448(env, sh):
    from vlib.llsym import kern
    K = kern.kernel(env, 'curve448.c', extra_macros=['STATIC='])
    vals = [[env.int('%s%d' % (nm, i), 64) for i in range(7)] for nm in 'abcd']
    bufs = [_wbuf(env, K, nm, v, 8) for nm, v in zip('abcd', vals)]
    swap = env.int('swap', 1)
    K.call('cswap', bufs[0], bufs[1], bufs[2], bufs[3], swap)
    got = [_rwords(env, K, b, 7, 8) for b in bufs]
    for i in range(7):
        env.check(env.And(got[0][i] == env.ite(swap == 1, vals[2][i], vals[0][i]), got[2][i] == env.ite(swap == 1, vals[0][i], vals[2][i]),
                          got[1][i] == env.ite(swap == 1, vals[3][i], vals[1][i]), got[3][i] == env.ite(swap == 1, vals[1][i], vals[3][i])),
                  'curve448 cswap word %d: (a,c) and (b,d) exchanged exactly when swap == 1' % i)
    K.check_memory_safe()


def _words_val(env, ws, width):
    return sum(w << (64 * i) for i, w in enumerate(ws))


def run_bignum(env, sh):
    from vlib.llsym import kern
    K = kern.kernel(env, 'bignum.c', extra_macros=['STATIC='])
    fn, nw = sh['fn'], sh['nw']
    W = 64 * nw + 8
    a = [env.int('a%d' % i, 64) for i in range(nw)]
    b = [env.int('b%d' % i, 64) for i in range(nw)]
    ab = _wbuf(env, K, 'a', a, 8)
    bb = _wbuf(env, K, 'b', b, 8)
    va, vb = _words_val(env, a, W), _words_val(env, b, W)
    if fn == 'ge':
        r = K.call('ge', ab, bb, nw)
        env.check(env.eqv(r != 0, va >= vb), 'ge(x, y) != 0 exactly when x >= y')
        env.check(env.Or(r == 0, r == 1), 'ge returns 0 or 1')
    elif fn == 'sub':
        out = K.out(8 * nw, 'out')
        r = K.call('sub', out, ab, bb, nw)
        vo = _words_val(env, _rwords(env, K, out, nw, 8), W)
        env.check(env.Or(env.And(va >= vb, vo == va - vb, r == 0), env.And(va < vb, vo + vb == va + (1 << (64 * nw)), r == 1)),
                  'sub: out == a - b modulo 2^(64 nw), return value == borrow')
    elif fn in ('add_mod', 'sub_mod'):
        m = [env.int('m%d' % i, 64) for i in range(nw)]
        mb = _wbuf(env, K, 'm', m, 8)
        vm = _words_val(env, m, W)
        # documented precondition: a, b < modulus
        env.assume(env.And(va < vm, vb < vm))
        out = K.out(8 * nw, 'out')
        t1, t2 = K.out(8 * nw, 't1'), K.out(8 * nw, 't2')
        K.call(fn, out, ab, bb, mb, t1, t2, nw)
        vo = _words_val(env, _rwords(env, K, out, nw, 8), W)
        if fn == 'add_mod':
            env.check(env.And(vo < vm, env.Or(vo == va + vb, vo + vm == va + vb)), 'add_mod: out == (a + b) mod m')
        else:
            env.check(env.And(vo < vm, env.Or(vo + vb == va, vo + vb == va + vm)), 'sub_mod: out == (a - b) mod m')
    elif fn == 'mod_select':
        cond = env.int('cond', 32)
        out = K.out(8 * nw, 'out')
        K.call('mod_select', out, ab, bb, cond, nw)
        o = _rwords(env, K, out, nw, 8)
        for i in range(nw):
            env.check(o[i] == env.ite(cond != 0, a[i], b[i]), 'mod_select word %d: a when cond != 0 else b' % i)
    else:
        raise KeyError(fn)
    K.check_memory_safe()


HARNESSES = dict(dh_roles=Harness('dh_roles', run_dh_roles, max_paths=4000, budget_s=600),
                 dh_refusals=Harness('dh_refusals', run_dh_refusals),
                 point_ops=Harness('point_ops', run_point_ops, max_paths=4000),
                 f25519=Harness('f25519', run_f25519), cswap448=Harness('cswap448', run_cswap448),
                 bignum=Harness('bignum', run_bignum, timeout_ms=600000, budget_s=1500), ec_scalar_mem=ecc_c.HARNESS,
                 ec_cmp_c=ecc_c.HARNESS_CMP)


def shapes(tier):
    th = tier == 'thorough'
    jobs = []
    curves = ('P-192', 'P-224', 'P-256', 'P-384', 'P-521', 'Curve25519', 'Curve448') if th else ('P-256', 'P-521', 'Curve25519', 'Curve448')
    for c in curves:
        for m in MODES:
            jobs.append(('dh_roles', dict(curve=c, mode=m)))
    for c in ('P-192', 'P-224', 'P-256', 'P-384', 'P-521', 'Curve25519', 'Curve448'):
        jobs.append(('dh_refusals', dict(curve=c)))
    for c in ('P-256', 'P-384', 'P-521', 'Ed25519', 'Ed448', 'Curve25519', 'Curve448') if th else ('P-256', 'Ed25519', 'Curve25519', 'Curve448'):
        for kb in ((1, 2, 31, 32, 33, 64, 75) if th else (1, 32, 33, 66)):
            jobs.append(('point_ops', dict(curve=c, op='mul', kbytes=kb)))
        jobs.append(('point_ops', dict(curve=c, op='special')))
        if c.startswith('Ed'):
            jobs.append(('point_ops', dict(curve=c, op='loworder')))
        if c not in MONT:
            jobs.append(('point_ops', dict(curve=c, op='addneg')))
    for fn in ('le64_to_25p5', 'le8_to_25p5', 'be8_to_25p5', '25p5_to_le64', '25p5_to_le8', '25p5_to_be8', 'add_25519', 'sub_25519', 'add32',
               'reduce_le25p5', 'reduce_le64', 'is_zero', 'cswap'):
        jobs.append(('f25519', dict(fn=fn)))
    jobs.append(('cswap448', dict()))
    for fn in ('ge', 'sub', 'add_mod', 'sub_mod', 'mod_select'):
        for nw in (1, 2, 3, 4) if th else (1, 2, 3):
            if fn in ('add_mod', 'sub_mod') and nw > (2 if th else 1):
                continue        # 2 words: 20-50 s on an idle machine (thorough only); 3 words: unknown at 150 s (outside)            # z3 does not finish the 3-word modular add/sub within the budget (measured): outside
            jobs.append(('bignum', dict(fn=fn, nw=nw)))
    # real C scalar multiplication on concrete operands (LLSYM as interpreter): scalars up to and beyond the order,
    # generator fast path and generic path, against the textbook multiple
    jobs += ecc_c.ec_scalar_shapes(tier)
    for c in ('P-192', 'P-224', 'P-256', 'P-384', 'P-521') if th else ('P-192', 'P-256'):
        jobs.append(('ec_cmp_c', dict(curve=c)))
    return jobs


BOUNDS = dict(dh="5 NIST curves + Curve25519 + Curve448 (quick: P-256, P-521, both X curves); every supported SP 800-56A role combination; "
              "all private scalars symbolic at full byte length",
              point_ops="scalars of 1..75 bytes (all values of the given byte length), symbolic points that are public keys of symbolic scalars",
              kernels="mod25519.c linear kernels: all limbs symbolic under the stated limb-range precondition; bignum.c ge/sub/mod_select for 1..3 (thorough 4) 64-bit words, add_mod/sub_mod for 1 word (thorough: 2 words)",
              outside=["the multiplication-based C kernels (mul_25519, mont_mult_*, ec_full_add/double, ec_scalar*, ed25519/ed448 add/double/scalar, "
                       "the ladders, the precomputed tables): wide modular multiplication is not SMT-decidable here (measured, see DESIGN.md)",
                       "hence: agreement of the C scalar multiplication with the mathematical group law (checked only concretely in replay/validation "
                       "against textbook formulas)", "scalars shorter than the stated byte length within a shape (other shapes cover them)"])
ASSUMPTIONS = ["abstract commutative group: scalar multiplication / addition uninterpreted with on-curve, range, commutation and a(bQ)=b(aQ) facts",
               "a key agreement between two valid keys does not yield the neutral element (true in the real prime-order / clamped groups; not derivable in the abstract one)",
               "limb-range preconditions of the 25.5-bit representation as stated per check"]
EXPLANATION = ("bounded symbolic execution: (PYSYM) the real DH.key_agreement / EccPoint operator code over an abstract commutative group with all "
               "private scalars symbolic, z3 deciding that both parties' secrets coincide and equal the encoded x-coordinates the standards "
               "prescribe; (LLSYM) the real linear field kernels of mod25519.c / curve448.c / bignum.c with every limb symbolic against "
               "their integer specifications")
