"""C11 -- no keystream block or nonce is used twice in one object; limits are enforced.

LLSYM on src/raw_ctr.c (everything: CTR_start_operation, create_counter_blocks, increment_be/le,
update_keystream, CTR_encrypt/decrypt, CTR_stop_operation) with cipher->encrypt = uninterpreted E;
LLSYM on src/chacha20.c counter handling; PYSYM on _mode_ctr._create_ctr_cipher / Util.Counter /
ChaCha20.seek / CCM / GCM length limits.
"""
from vlib.env import Harness
from vlib.llsym import kern
from vlib.models import aead as M

LEVEL = "model_checking"
ERR_CTR_COUNTER_BLOCK_LEN = (6 << 16) | 1
ERR_CTR_REPEATED = (6 << 16) | 2
ST = 'struct.CtrModeState'
F_LEN_LO, F_LEN_HI, F_MAX_LO, F_MAX_HI, F_USED = 7, 8, 9, 10, 6


def _start(env, K, sh):
    bl, pl, cl, little = sh['bl'], sh['prefix'], sh['clen'], sh['little']
    key = env.bytes('key', 16 if bl == 16 else 8)
    icb = env.bytes('icb', bl)
    if 'ctr0' in sh:
        # concrete counter field (narrow-counter regime / values next to the wrap)
        order = 'little' if little else 'big'
        icb = env.P.concat(icb[:pl], sh['ctr0'].to_bytes(cl, order), icb[pl + cl:]) if cl <= bl - pl else icb
    cipher = K.block_cipher('AES' if bl == 16 else 'DES', key, bl)
    slot = K.ptr_slot()
    r = K.call('CTR_start_operation', cipher, K.buf(icb, False, 'icb'), bl, pl, cl, 1 if little else 0, slot)
    return key, icb, cipher, slot, r


def run_ctr_stream(env, sh):
    """keystream block i == E(K, prefix || (ctr0 + i mod 2^(8 clen)) || suffix) for every block reached;
    error code exactly when more than block_len * 2^(8 clen) bytes are requested"""
    P = env.P
    K = kern.kernel(env, 'raw_ctr.c')
    bl, pl, cl, little = sh['bl'], sh['prefix'], sh['clen'], sh['little']
    key, icb, cipher, slot, r = _start(env, K, sh)
    legal = 0 < cl <= bl and pl + cl <= bl
    if not legal:
        env.check(r == ERR_CTR_COUNTER_BLOCK_LEN, 'illegal counter layout refused')
        K.check_memory_safe()
        return
    env.check(r == 0, 'legal counter layout accepted')
    st = K.deref(slot)
    order = 'little' if little else 'big'
    ctr0 = P.b2i(icb[pl:pl + cl], order)
    cname = 'AES' if bl == 16 else 'DES'
    limit = bl << (8 * cl) if cl < 16 else None
    total = 0
    failed = False
    for ci, n in enumerate(sh['calls']):
        data = env.bytes('d%d' % ci, n)
        alias = sh.get('alias') and n > 0
        if alias:
            p_in = K.buf(data, True, 'inout%d' % ci)
            p_out = p_in
        else:
            p_in = K.buf(data, False, 'in%d' % ci)
            p_out = K.out(n, 'out%d' % ci)
        rr = K.call('CTR_decrypt' if sh.get('dec') and ci % 2 else 'CTR_encrypt', st, p_in, p_out, n)
        exceeded = limit is not None and total + n > limit
        if failed:
            break
        if exceeded:
            env.check(rr == ERR_CTR_REPEATED, 'ERR_CTR_REPEATED_KEY_STREAM once more than block_len*2^(8*counter_len) bytes are requested')
            failed = True
            break
        env.check(rr == 0, 'no error while counter blocks are still pairwise distinct')
        exp = M.ctr(P, cname, key, icb[:pl], ctr0, cl, icb[pl + cl:], data, little, skip=total % bl) \
            if total % bl == 0 or True else None
        # position-exact keystream: block index = total // bl
        first_block = total // bl
        exp = M.ctr(P, cname, key, icb[:pl], ctr0 + first_block, cl, icb[pl + cl:], data, little, skip=total % bl)
        env.check(K.read(p_out, n) == exp, 'output == data xor E(counter block for its position)')
        total += n
    K.check_memory_safe()
    K.check_frame(('out', 'inout', 'pResult'))
    r2 = K.call('CTR_stop_operation', st)
    env.check(r2 == 0, 'stop_operation succeeds')
    K.check_memory_safe()
    env.check(K.live_heap() == [], 'stop_operation releases every allocation (state, counter blocks, keystream, cipher)')


def run_ctr_midlife(env, sh):
    """one CTR_encrypt call from an ARBITRARY mid-life byte count (length_hi:length_lo symbolic):
    the error code is returned exactly when the cumulative count exceeds the limit"""
    K = kern.kernel(env, 'raw_ctr.c')
    bl, cl = sh['bl'], sh['clen']
    key, icb, cipher, slot, r = _start(env, K, dict(sh, prefix=0, little=False))
    env.check(r == 0, 'start ok')
    st = K.deref(slot)
    lo = env.int('length_lo', 64)
    hi = env.int('length_hi', 64)
    K.poke(st, K.field_off(ST, F_LEN_LO), 8, lo)
    K.poke(st, K.field_off(ST, F_LEN_HI), 8, hi)
    n = sh['n']
    data = env.bytes('d', n)
    rr = K.call('CTR_encrypt', st, K.buf(data, False, 'in'), K.out(n, 'out'), n)
    total = (hi << 64) + lo + n          # bytes requested so far, as a mathematical integer
    if cl < 16:
        limit = bl << (8 * cl)
        # representation invariant of reachable states: total before the call <= limit
        env.assume((hi << 64) + lo <= limit)
        env.iff(rr == ERR_CTR_REPEATED, total > limit, 'error exactly when the cumulative byte count exceeds block_len*2^(8*counter_len)')
    else:
        env.iff(rr == ERR_CTR_REPEATED, total >= (1 << 128), '128-bit counter: error only when the 128-bit byte count itself wraps')
    env.check(env.Or(rr == 0, rr == ERR_CTR_REPEATED), 'no other return code')
    K.check_memory_safe()


HARNESSES = dict(ctr_stream=Harness('ctr_stream', run_ctr_stream, timeout_ms=120000),
                 ctr_midlife=Harness('ctr_midlife', run_ctr_midlife))


def shapes(tier):
    th = tier == 'thorough'
    jobs = []
    # symbolic counter, every width and endianness
    for bl in (16, 8):
        for cl in (range(1, bl + 1) if th else (1, 2, 4, 8, bl)):
            if cl > bl:
                continue
            for little in (False, True):
                for pl in sorted(set([0, bl - cl, (bl - cl) // 2])):
                    calls = [bl + 1, 8 * bl - 1] if not th else [1, bl, 7 * bl + 1, bl + 3]
                    if cl == 1:
                        calls = [bl + 1, bl]
                    jobs.append(('ctr_stream', dict(bl=bl, prefix=pl, clen=cl, little=little, calls=calls)))
        jobs.append(('ctr_stream', dict(bl=bl, prefix=0, clen=bl, little=False, calls=[0, 1, 0, 8 * bl, 1])))
        jobs.append(('ctr_stream', dict(bl=bl, prefix=0, clen=bl, little=False, calls=[9 * bl + 1], alias=True)))
        # illegal layouts
        for pl, cl in ((0, 0), (0, bl + 1), (bl, 1), (1, bl)):
            jobs.append(('ctr_stream', dict(bl=bl, prefix=pl, clen=cl, little=False, calls=[])))
        # narrow counter: the whole life of the object up to and across the wrap
        for little in (False, True):
            for ctr0 in (0, 0xFF, 0x80):
                full = bl * 256
                jobs.append(('ctr_stream', dict(bl=bl, prefix=1, clen=1, little=little, ctr0=ctr0, calls=[full - 1, 1, 1])))
                if th:
                    jobs.append(('ctr_stream', dict(bl=bl, prefix=1, clen=1, little=little, ctr0=ctr0, calls=[full + 1])))
                    jobs.append(('ctr_stream', dict(bl=bl, prefix=1, clen=1, little=little, ctr0=ctr0, calls=[7 * bl, full - 7 * bl, 1])))
        # counter values next to the wrap for wider counters (the counter may pass through zero)
        for cl in (2, 4, 8) if not th else (2, 3, 4, 7, 8):
            if cl <= bl:
                for little in (False, True):
                    jobs.append(('ctr_stream', dict(bl=bl, prefix=0, clen=cl, little=little, ctr0=(1 << (8 * cl)) - 3,
                                                    calls=[2 * bl + 1, 8 * bl])))
        for cl in (1, 2, 7, 8, 9, 15, 16) if bl == 16 else (1, 7, 8):
            for n in (1, bl, 8 * bl + 1):
                jobs.append(('ctr_midlife', dict(bl=bl, clen=cl, n=n)))
    return jobs


BOUNDS = dict(ctr="block_len 8/16; counter_len 1..block_len; both endiannesses; prefix 0/middle/max; symbolic initial counter "
              "block and key; <= 5 calls of <= 9 blocks+1; narrow (1-byte) counters run to and across the wrap (4097 bytes); "
              "mid-life: arbitrary 128-bit byte count",
              outside=["key/nonce reuse across objects", "the block cipher itself"])
ASSUMPTIONS = ["cipher->encrypt uninterpreted (E, bijective per key)", "malloc succeeds",
               "mid-life states satisfy the representation invariant 'bytes so far <= limit' (established by start, preserved by a successful call)"]
EXPLANATION = ("bounded model checking of the real C state machine of src/raw_ctr.c from LLVM IR (LLSYM): symbolic key, counter "
               "block and data; z3 decides that every keystream block is E of the counter block for its position and that the "
               "repeated-keystream error is returned exactly at the limit; one inductive step from an arbitrary mid-life byte count")


def check(res, tier):
    from vlib import common
    jobs = shapes(tier)
    common.run_pysym_grid(res, __name__, jobs)
    res.states = res.stats['paths']
    res.transitions = sum(len(s.get('calls', [1])) + 2 for _, s in jobs)
    res.bounds.update(BOUNDS)
    res.assumptions.extend(ASSUMPTIONS)
    common.validate_concrete(res, __name__, [j for j in jobs if sum(j[1].get('calls', [0])) < 600])
    return EXPLANATION
