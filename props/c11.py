"""C11 -- no keystream block or nonce is used twice in one object; limits are enforced.

LLSYM on src/raw_ctr.c (everything: CTR_start_operation, create_counter_blocks, increment_be/le,
update_keystream, CTR_encrypt/decrypt, CTR_stop_operation) with cipher->encrypt = uninterpreted E;
LLSYM on src/chacha20.c (seek/encrypt sequences, sticky exhaustion); PYSYM on
ChaCha20.seek / CCM / GCM length limits.
"""
from vlib.env import Harness
from vlib.llsym import kern
from vlib.models import aead as M

LEVEL = "model_checking"
ERR_CTR_COUNTER_BLOCK_LEN = (6 << 16) | 1
ERR_CTR_REPEATED = (6 << 16) | 2
ST = 'struct.CtrModeState'
F_LEN_LO, F_LEN_HI, F_MAX_LO, F_MAX_HI, F_USED = 7, 8, 9, 10, 6


def _start(env, K, sh):
    bl, pl, cl, little = sh['bl'], sh['prefix'], sh['clen'], sh['little']
    key = env.bytes('key', 16 if bl == 16 else 8)
    icb = env.bytes('icb', bl)
    if 'ctr0' in sh:
        # concrete counter field (narrow-counter regime / values next to the wrap)
        order = 'little' if little else 'big'
        icb = env.P.concat(icb[:pl], sh['ctr0'].to_bytes(cl, order), icb[pl + cl:]) if cl <= bl - pl else icb
    cipher = K.block_cipher('AES' if bl == 16 else 'DES', key, bl)
    slot = K.ptr_slot()
    r = K.call('CTR_start_operation', cipher, K.buf(icb, False, 'icb'), bl, pl, cl, 1 if little else 0, slot)
    return key, icb, cipher, slot, r


def run_ctr_stream(env, sh):
    """keystream block i == E(K, prefix || (ctr0 + i mod 2^(8 clen)) || suffix) for every block reached;
    error code exactly when more than block_len * 2^(8 clen) bytes are requested"""
    P = env.P
    K = kern.kernel(env, 'raw_ctr.c')
    bl, pl, cl, little = sh['bl'], sh['prefix'], sh['clen'], sh['little']
    key, icb, cipher, slot, r = _start(env, K, sh)
    legal = 0 < cl <= bl and pl + cl <= bl
    if not legal:
        env.check(r == ERR_CTR_COUNTER_BLOCK_LEN, 'illegal counter layout refused')
        K.check_memory_safe()
        return
    env.check(r == 0, 'legal counter layout accepted')
    st = K.deref(slot)
    order = 'little' if little else 'big'
    ctr0 = P.b2i(icb[pl:pl + cl], order)
    cname = 'AES' if bl == 16 else 'DES'
    limit = bl << (8 * cl) if cl < 16 else None
    total = 0
    failed = False
    for ci, n in enumerate(sh['calls']):
        data = env.bytes('d%d' % ci, n)
        alias = sh.get('alias') and n > 0
        if alias:
            p_in = K.buf(data, True, 'inout%d' % ci)
            p_out = p_in
        else:
            p_in = K.buf(data, False, 'in%d' % ci)
            p_out = K.out(n, 'out%d' % ci)
        rr = K.call('CTR_decrypt' if sh.get('dec') and ci % 2 else 'CTR_encrypt', st, p_in, p_out, n)
        exceeded = limit is not None and total + n > limit
        if failed:
            break
        if exceeded:
            env.check(rr == ERR_CTR_REPEATED, 'ERR_CTR_REPEATED_KEY_STREAM once more than block_len*2^(8*counter_len) bytes are requested')
            failed = True
            break
        env.check(rr == 0, 'no error while counter blocks are still pairwise distinct')
        exp = M.ctr(P, cname, key, icb[:pl], ctr0, cl, icb[pl + cl:], data, little, skip=total % bl) \
            if total % bl == 0 or True else None
        # position-exact keystream: block index = total // bl
        first_block = total // bl
        exp = M.ctr(P, cname, key, icb[:pl], ctr0 + first_block, cl, icb[pl + cl:], data, little, skip=total % bl)
        env.check(K.read(p_out, n) == exp, 'output == data xor E(counter block for its position)')
        total += n
    K.check_memory_safe()
    K.check_frame(('out', 'inout', 'pResult'))
    r2 = K.call('CTR_stop_operation', st)
    env.check(r2 == 0, 'stop_operation succeeds')
    K.check_memory_safe()
    env.check(K.live_heap() == [], 'stop_operation releases every allocation (state, counter blocks, keystream, cipher)')


def run_ctr_midlife(env, sh):
    """one CTR_encrypt call from an ARBITRARY mid-life byte count (length_hi:length_lo symbolic):
    the error code is returned exactly when the cumulative count exceeds the limit"""
    K = kern.kernel(env, 'raw_ctr.c')
    bl, cl = sh['bl'], sh['clen']
    key, icb, cipher, slot, r = _start(env, K, dict(sh, prefix=0, little=False))
    env.check(r == 0, 'start ok')
    st = K.deref(slot)
    lo = env.int('length_lo', 64)
    hi = env.int('length_hi', 64)
    K.poke(st, K.field_off(ST, F_LEN_LO), 8, lo)
    K.poke(st, K.field_off(ST, F_LEN_HI), 8, hi)
    n = sh['n']
    data = env.bytes('d', n)
    rr = K.call('CTR_encrypt', st, K.buf(data, False, 'in'), K.out(n, 'out'), n)
    total = (hi << 64) + lo + n          # bytes requested so far, as a mathematical integer
    if cl < 16:
        limit = bl << (8 * cl)
        # representation invariant of reachable states: total before the call <= limit
        env.assume((hi << 64) + lo <= limit)
        env.iff(rr == ERR_CTR_REPEATED, total > limit, 'error exactly when the cumulative byte count exceeds block_len*2^(8*counter_len)')
    else:
        env.iff(rr == ERR_CTR_REPEATED, total >= (1 << 128), '128-bit counter: error only when the 128-bit byte count itself wraps')
    env.check(env.Or(rr == 0, rr == ERR_CTR_REPEATED), 'no other return code')
    K.check_memory_safe()


# ---------------------------------------------------------------- ChaCha20 block counter (src/chacha20.c)

ERR_MAX_DATA = 10
KEYC = bytes(range(1, 33))
CH_ST = 'struct.stream_state'


def _ks_via_seek(env, K, nonce, blk):
    """reference keystream block: what the real code returns for a FRESH object after a direct seek to
    block index blk.  (That single block equals RFC 8439 chacha20_block(key, blk, nonce) for every key, nonce
    and counter: decided separately by C02/chacha_block.)  Comparing the sequence under test with direct
    seeks keeps both sides in the same term language, so the solver is not asked to prove two differently
    written 20-round ARX circuits equivalent (measured: unknown after 150 s even with 4 free bits)."""
    slot = K.ptr_slot()
    nl = len(nonce)
    r = K.call('chacha20_init', slot, K.buf(KEYC, False, 'key'), 32, K.buf(nonce, False, 'nonce'), nl)
    st = K.deref(slot)
    hi, lo = blk
    r = K.call('chacha20_seek', st, hi, lo, 0)
    env.check(r == 0, 'reference seek succeeds')
    out = K.out(64, 'ref')
    r = K.call('chacha20_encrypt', st, K.buf(bytes(64), False, 'z'), out, 64)
    env.check(r == 0, 'reference block produced')
    ks = K.read(out, 64)
    K.call('chacha20_destroy', st)
    return ks


def run_chacha_seq(env, sh):
    """seek(position) then a sequence of encrypt() calls on the real C: every call either returns data that is
    the keystream for its stream position, or fails; it must fail when the range needs a block index beyond
    the counter, may fail only when the range reaches the last block index, and once it has failed every
    later non-empty call fails too (no silent wrap-around to block 0) until a successful seek()"""
    P = env.P
    K = kern.kernel(env, 'chacha20.c')
    nl = sh['nlen']
    nonce = bytes(range(0x40, 0x40 + nl))
    slot = K.ptr_slot()
    env.check(K.call('chacha20_init', slot, K.buf(KEYC, False, 'key'), 32, K.buf(nonce, False, 'nonce'), nl) == 0, 'init ok')
    st = K.deref(slot)
    W = 32 if nl == 12 else 64
    LIMIT = 1 << W                     # number of distinct block indexes
    hi0, lo0 = 0, 0
    blk0, rel = 0, 0                   # stream position of the next byte == 64 * blk0 + rel  (blk0 may be symbolic, rel is concrete)
    dead = False
    for step, act in enumerate(sh['acts']):
        if act[0] == 'seek':
            kind = act[1]
            if kind == 'sym':
                lo = env.int('lo%d' % step, 32)
                hi = env.int('hi%d' % step, 32) if nl == 8 else 0
                # general position: no carry out of the low counter word within this shape (the carry and the
                # end of the counter range are the 'win' shapes)
                env.assume(lo < 0xFFFFFFF0)
            elif kind[0] == 'win':
                # block indexes next to a carry boundary: base + a solver-enumerated offset
                import operator
                lo = kind[1] + operator.index(env.int('lo%d' % step, kind[3]))
                hi = kind[2] + operator.index(env.int('hi%d' % step, 1)) if nl == 8 else 0
            else:
                lo, hi = kind[1], kind[0]
            off = act[2]
            blk = (hi << 32) + lo
            r = K.call('chacha20_seek', st, hi, lo, off)
            # seeking generates the block: the last index is refused by this implementation (conservative)
            env.check(env.Or(r == 0, blk == LIMIT - 1), 'seek(step %d) to a block below the last one succeeds' % step)
            if r != 0:                 # forks on symbolic r
                dead = True
                continue
            dead = False
            blk0, rel = blk, off
            hi0, lo0 = hi, lo
        else:
            n = act[1]
            data = env.bytes('d%d' % step, n)
            out = K.out(n, 'out%d' % step)
            r = K.call('chacha20_encrypt', st, K.buf(data, False, 'in%d' % step), out, n)
            if n == 0:
                env.check(r == 0, 'empty call succeeds')
                continue
            last_needed = blk0 + (rel + n - 1) // 64
            if dead:
                env.check(r != 0, 'step %d: after a failure every later call fails (the counter does not silently restart)' % step)
                continue
            env.check(env.Or(r == 0, last_needed >= LIMIT - 1), 'step %d: no error while the range stays below the last block index' % step)
            env.check(env.Or(r != 0, last_needed < LIMIT), 'step %d: error when a block index beyond the counter range is needed' % step)
            if r != 0:
                dead = True
                continue
            first, skip = blk0 + rel // 64, rel % 64
            nb = (skip + n + 63) // 64
            def words(j):
                # (high word, low word) of block index first + j; symbolic positions stay below a carry (assumed above)
                if isinstance(lo0, int) and isinstance(hi0, int):
                    b = (hi0 << 32) + lo0 + rel // 64 + j
                    return (b >> 32) & 0xFFFFFFFF, b & 0xFFFFFFFF
                return hi0, lo0 + rel // 64 + j
            ks = P.concat(*[_ks_via_seek(env, K, nonce, words(j)) for j in range(nb)])
            env.check(K.read(out, n) == P.xor(data, ks[skip:skip + n]), 'step %d: output == data xor keystream for its stream position' % step)
            rel += n
    K.check_memory_safe()
    K.call('chacha20_destroy', st)


def run_chacha_seek_py(env, sh):
    """ChaCha20.seek() for a symbolic position: accepted exactly when the block index fits the counter, and then
    encrypt() returns the key stream for that position (Python glue on top of the C contract model)"""
    from Crypto.Cipher import ChaCha20
    P = env.P
    nl, off, n = sh['nlen'], sh['off'], sh['n']
    key = env.bytes('key', 32)
    nonce = env.bytes('nonce', nl)
    blk = env.int('blk', sh['bits'], signed=sh.get('signed', False))
    if 'base' in sh:
        blk = blk + sh['base']
    pos = blk * 64 + off
    c = ChaCha20.new(key=key, nonce=nonce)
    W = 64 if nl == 8 else 32
    LIMIT = 1 << W
    data = env.bytes('data', n)
    try:
        c.seek(pos)
        ok = True
    except (ValueError, OverflowError):
        ok = False
    last = blk + (off + n - 1) // 64
    env.check(env.Or(not ok, env.And(blk >= 0, blk < LIMIT)), 'seek() to a position outside the key stream is refused')
    env.check(env.Or(ok, blk < 0, blk >= LIMIT - 1), 'seek() to a block below the last one is accepted')
    if not ok:
        return
    try:
        out = c.encrypt(data)
    except (ValueError, OverflowError):
        env.check(last >= LIMIT - 1, 'encrypt() after seek() fails only when the range reaches the end of the key stream')
        return
    env.check(last < LIMIT, 'encrypt() beyond the counter range raises')
    k2, n2 = M.chacha_params(P, key, nonce)
    # counters fit the counter field on this path (checked above): the reference needs no reduction
    exp = M.chacha_stream(P, k2, n2, blk, data, skip=off)
    env.check(out == exp, 'output == key stream at the requested position')


def run_ccm_limit(env, sh):
    """CCM: a declared message length that does not fit the q = 15 - len(nonce) length octets is refused at
    construction, whether or not assoc_len is declared too; an undeclared message is checked when it arrives"""
    from Crypto.Cipher import AES
    nl = sh['nlen']
    q = 15 - nl
    key = env.bytes('key', 16)
    nonce = env.bytes('nonce', nl)
    if sh['kind'] == 'declared':
        m = env.int('msg_len', sh['bits'])
        kw = dict(msg_len=m)
        if sh.get('assoc') is not None:
            kw['assoc_len'] = sh['assoc']
        try:
            AES.new(key, AES.MODE_CCM, nonce=nonce, **kw)
            ok = True
        except ValueError:
            ok = False
        env.check(env.eqv(ok, m < (1 << (8 * q))), 'declared msg_len accepted exactly when it fits %d length octets' % q)
        return
    # undeclared: the (single) piece is measured when it arrives
    n = sh['n']
    ci = AES.new(key, AES.MODE_CCM, nonce=nonce)
    if sh.get('aad'):
        ci.update(env.bytes('aad', sh['aad']))
    data = bytes(n)
    try:
        if sh.get('dec'):
            ci.decrypt(data)
        else:
            ci.encrypt(data)
        ok = True
    except ValueError:
        ok = False
    env.check(ok == (n < (1 << (8 * q))), 'undeclared message of %d bytes is %s' % (n, 'accepted' if n < (1 << (8 * q)) else 'refused'))


def run_gcm_limit(env, sh):
    """GCM: one encrypt() step from an ARBITRARY mid-life message byte count: ValueError exactly when the total
    exceeds 2^39 - 256 bits = 2^36 - 32 bytes (NIST SP 800-38D s5.2.1.1)"""
    from Crypto.Cipher import AES
    key = env.bytes('key', 16)
    nonce = env.bytes('nonce', 12)
    ci = AES.new(key, AES.MODE_GCM, nonce=nonce)
    done = env.int('done', 40)
    LIM = (2 ** 39 - 256) // 8
    # SP 800-38D counts bits; the library compares its byte count with 2^39 - 256, i.e. allows 8 times the
    # standard's limit -- reported by the first check below if so
    env.assume(done <= 2 ** 39 - 256)
    ci._msg_len = done
    n = sh['n']
    data = env.bytes('d', n)
    try:
        ci.encrypt(data)
        ok = True
    except ValueError:
        ok = False
    env.check(env.eqv(ok, done + n <= sh['limit_bytes']), 'encrypt() accepted exactly while the total stays within the limit')


HARNESSES = dict(ctr_stream=Harness('ctr_stream', run_ctr_stream, timeout_ms=120000),
                 ctr_midlife=Harness('ctr_midlife', run_ctr_midlife),
                 chacha_seq=Harness('chacha_seq', run_chacha_seq, timeout_ms=120000),
                 chacha_seek_py=Harness('chacha_seek_py', run_chacha_seek_py),
                 ccm_limit=Harness('ccm_limit', run_ccm_limit), gcm_limit=Harness('gcm_limit', run_gcm_limit))


def shapes(tier):
    th = tier == 'thorough'
    jobs = []
    # symbolic counter, every width and endianness
    for bl in (16, 8):
        for cl in (range(1, bl + 1) if th else (1, 2, 4, 8, bl)):
            if cl > bl:
                continue
            for little in (False, True):
                for pl in sorted(set([0, bl - cl, (bl - cl) // 2])):
                    calls = [bl + 1, 8 * bl - 1] if not th else [1, bl, 7 * bl + 1, bl + 3]
                    if cl == 1:
                        calls = [bl + 1, bl]
                    jobs.append(('ctr_stream', dict(bl=bl, prefix=pl, clen=cl, little=little, calls=calls)))
        jobs.append(('ctr_stream', dict(bl=bl, prefix=0, clen=bl, little=False, calls=[0, 1, 0, 8 * bl, 1])))
        jobs.append(('ctr_stream', dict(bl=bl, prefix=0, clen=bl, little=False, calls=[9 * bl + 1], alias=True)))
        # illegal layouts
        for pl, cl in ((0, 0), (0, bl + 1), (bl, 1), (1, bl)):
            jobs.append(('ctr_stream', dict(bl=bl, prefix=pl, clen=cl, little=False, calls=[])))
        # narrow counter: the whole life of the object up to and across the wrap
        for little in (False, True):
            for ctr0 in (0, 0xFF, 0x80):
                full = bl * 256
                jobs.append(('ctr_stream', dict(bl=bl, prefix=1, clen=1, little=little, ctr0=ctr0, calls=[full - 1, 1, 1])))
                if th:
                    jobs.append(('ctr_stream', dict(bl=bl, prefix=1, clen=1, little=little, ctr0=ctr0, calls=[full + 1])))
                    jobs.append(('ctr_stream', dict(bl=bl, prefix=1, clen=1, little=little, ctr0=ctr0, calls=[7 * bl, full - 7 * bl, 1])))
        # counter values next to the wrap for wider counters (the counter may pass through zero)
        for cl in (2, 4, 8) if not th else (2, 3, 4, 7, 8):
            if cl <= bl:
                for little in (False, True):
                    jobs.append(('ctr_stream', dict(bl=bl, prefix=0, clen=cl, little=little, ctr0=(1 << (8 * cl)) - 3,
                                                    calls=[2 * bl + 1, 8 * bl])))
        for cl in (1, 2, 7, 8, 9, 15, 16) if bl == 16 else (1, 7, 8):
            for n in (1, bl, 8 * bl + 1):
                jobs.append(('ctr_midlife', dict(bl=bl, clen=cl, n=n)))
    # ---- ChaCha20 block counter: real C, sequences of seek()/encrypt()
    top = 0xFFFFFFFC
    for nl in (12, 8):
        jobs.append(('chacha_seq', dict(nlen=nl, acts=[['enc', 64], ['seek', 'sym', 3], ['enc', 70], ['enc', 64]])))
        # next to the carry out of the low word / the end of the counter range, with recovery by seek()
        jobs.append(('chacha_seq', dict(nlen=nl, acts=[['enc', 3], ['seek', ['win', top, 0xFFFFFFFE, 2], 60], ['enc', 70], ['enc', 64], ['enc', 1],
                                                       ['seek', [0, 5], 0], ['enc', 5]])))
        jobs.append(('chacha_seq', dict(nlen=nl, acts=[['seek', ['win', top, 0, 2], 0], ['enc', 64], ['enc', 64], ['enc', 64], ['enc', 0], ['enc', 64]])))
        jobs.append(('chacha_seq', dict(nlen=nl, acts=[['enc', 130], ['enc', 0], ['enc', 1], ['seek', [0, 0], 63], ['enc', 2]])))
        if th:
            jobs.append(('chacha_seq', dict(nlen=nl, acts=[['seek', ['win', top, 0xFFFFFFFE, 2], 63], ['enc', 1], ['enc', 1], ['enc', 128], ['enc', 64]])))
            jobs.append(('chacha_seq', dict(nlen=nl, acts=[['seek', 'sym', 0], ['enc', 200], ['seek', 'sym', 7], ['enc', 64]])))
    # ---- ChaCha20.seek(): Python glue over the C contract for every position (also far outside the key stream)
    for nl in (8, 12, 24):
        for off, n in ((0, 64), (3, 70), (63, 2)):
            for bits in (31, 33, 40, 65, 72, 130):
                jobs.append(('chacha_seek_py', dict(nlen=nl, off=off, n=n, bits=bits)))
            jobs.append(('chacha_seek_py', dict(nlen=nl, off=off, n=n, bits=8, signed=True)))
            jobs.append(('chacha_seek_py', dict(nlen=nl, off=off, n=n, bits=3, base=(1 << (64 if nl == 8 else 32)) - 4)))
    # ---- CCM / GCM length limits
    for nl in range(7, 14):
        q = 15 - nl
        for assoc in (None, 0, 5):
            jobs.append(('ccm_limit', dict(nlen=nl, kind='declared', bits=8 * q + 6, assoc=assoc)))
    for dec in (False, True):
        for aad in (0, 3):
            jobs.append(('ccm_limit', dict(nlen=13, kind='undeclared', n=65536, dec=dec, aad=aad)))
            jobs.append(('ccm_limit', dict(nlen=13, kind='undeclared', n=40, dec=dec, aad=aad)))
    for n in (0, 1, 16, 17, 33):
        jobs.append(('gcm_limit', dict(n=n, limit_bytes=2 ** 36 - 32)))
    return jobs


BOUNDS = dict(ctr="block_len 8/16; counter_len 1..block_len; both endiannesses; prefix 0/middle/max; symbolic initial counter "
              "block and key; <= 5 calls of <= 9 blocks+1; narrow (1-byte) counters run to and across the wrap (4097 bytes); "
              "mid-life: arbitrary 128-bit byte count",
              chacha="real C: sequences of <= 7 seek()/encrypt() calls, lengths 0..200; block index fully symbolic below a carry of the low counter word, "
              "and enumerated by the solver in windows of 4 next to the low-word carry and the end of the 32/64-bit counter range; "
              "Python seek(): every position of up to 136 bits incl. negative ones",
              limits="CCM: every declared msg_len up to 2^(8q+6) for every nonce length, with/without assoc_len; undeclared 64 KiB piece with a 13-byte nonce; "
              "GCM: one encrypt() step of 0..33 bytes from an arbitrary mid-life byte count",
              outside=["key/nonce reuse across objects", "the block cipher itself", "GCM decrypt() has no length check of its own (bounded only by the inner CTR counter): observed, not part of the anchored mechanism",
                       "the last ChaCha20 block index is refused by the implementation (conservative off-by-one): allowed by the oracle"])
ASSUMPTIONS = ["cipher->encrypt uninterpreted (E, bijective per key)", "malloc succeeds",
               "chacha_seq compares the sequence under test with the real code's own output after a direct seek on a fresh object; that single block == RFC 8439 is decided in C02/chacha_block",
               "chacha_seek_py / ccm / gcm limits run the Python over the C contract models of vlib/pysym/natives.py (ctypes c_ulong truncation modelled)",
               "gcm_limit injects the mid-life state through the private counter GcmMode._msg_len (the inductive step needs an arbitrary state; a rename of that field would need the harness to follow)",
               "mid-life states satisfy the representation invariant 'bytes so far <= limit' (established by start, preserved by a successful call)"]
EXPLANATION = ("bounded model checking of the real C state machine of src/raw_ctr.c from LLVM IR (LLSYM): symbolic key, counter "
               "block and data; z3 decides that every keystream block is E of the counter block for its position and that the "
               "repeated-keystream error is returned exactly at the limit; one inductive step from an arbitrary mid-life byte count")


def check(res, tier):
    from vlib import common
    jobs = shapes(tier)
    common.run_pysym_grid(res, __name__, jobs)
    res.states = res.stats['paths']
    res.transitions = sum(len(s.get('calls', [1])) + 2 for _, s in jobs)
    res.bounds.update(BOUNDS)
    res.assumptions.extend(ASSUMPTIONS)
    common.validate_concrete(res, __name__, [j for j in jobs if sum(j[1].get('calls', [0])) < 600])
    return EXPLANATION
