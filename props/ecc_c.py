"""Shared LLSYM drivers for the EC C code (used by C06, C17, C19)."""
from vlib.env import Harness
from vlib.llsym import kern


EC_UNIT = 'ec_ws.c+mont.c+p256_table.c+p384_table.c+p521_table.c'


def run_ec_scalar_mem(env, sh):
    """ec_ws_scalar on the generator (precomputed-table fast path) and on another point, for scalars of many
    byte lengths incl. longer than the group order: every access of the real C is bounds-checked by the LLSYM
    memory model; the result equals the textbook multiple.  Concrete operands (see run_ec_frame)."""
    from vlib.models import ecref
    from Crypto.PublicKey import ECC
    K = kern.kernel(env, EC_UNIT)
    if env.sym:
        K.m.step_budget = 80000000
    name = sh['curve']
    c = ECC._curves[name]
    n = (int(c.p).bit_length() + 7) // 8
    cur = ecref.Curve('ws', name, int(c.p), n, b=int(c.b), order=int(c.order))
    G = (int(c.Gx), int(c.Gy))
    add = lambda A, B: ecref.ws_add(cur, A, B)
    base = G if sh['gen'] else ecref.generic_smul(add, (0, 0), 3, G)
    slot = K.ptr_slot()
    r = K.call('ec_ws_new_context', slot, K.buf(int(c.p).to_bytes(n, 'big'), False, 'p'), K.buf(int(c.b).to_bytes(n, 'big'), False, 'b'),
               K.buf(int(c.order).to_bytes(n, 'big'), False, 'order'), n, 0x1122334455667788)
    env.check(r == 0, 'context created')
    ctx = K.deref(slot)
    sl = K.ptr_slot()
    env.check(K.call('ec_ws_new_point', sl, K.buf(base[0].to_bytes(n, 'big'), False, 'x'), K.buf(base[1].to_bytes(n, 'big'), False, 'y'), n, ctx) == 0, 'point created')
    A = K.deref(sl)
    klen = sh['klen']
    k = int.from_bytes(bytes((0xA7 * (i + 1) + sh.get('salt', 0)) & 0xFF for i in range(klen)), 'big') if klen else 0
    if sh.get('ones'):
        k = (1 << (8 * klen)) - 1
    kb = k.to_bytes(klen, 'big') if klen else b""
    r = K.call('ec_ws_scalar', A, K.buf(kb, False, 'k'), klen, 0x0123456789ABCDEF)
    K.check_memory_safe('ec_ws_scalar(%d-byte scalar) stays within every table, scratch and operand it touches' % klen)
    if r == 0:
        ox, oy = K.out(n, 'outx'), K.out(n, 'outy')
        env.check(K.call('ec_ws_get_xy', ox, oy, n, A) == 0, 'get_xy succeeds')
        want = ecref.generic_smul(add, (0, 0), k, base)
        P = env.P
        env.check(P.b2i(K.read(ox, n)) == want[0] and P.b2i(K.read(oy, n)) == want[1], 'k * P == textbook multiple (also for k >= order)')
    else:
        env.check(klen == 0, 'scalar multiplication succeeds for every non-empty scalar (also longer than the order)')
    K.call('ec_ws_free_point', A)
    K.call('ec_ws_free_context', ctx)
    K.check_memory_safe()
    env.check(K.live_heap() == [], 'context and point are released completely')


def ec_scalar_shapes(tier):
    th = tier == 'thorough'
    jobs = []
    for curve, n in (('P-256', 32), ('P-384', 48), ('P-521', 66)) + ((('P-192', 24), ('P-224', 28)) if th else ()):
        for gen in (True, False):
            lens = (1, n, n + 1, n + 8, 80) if th else ((n, n + 1, 80) if gen else (n + 1,))
            for klen in lens:
                jobs.append(('ec_scalar_mem', dict(curve=curve, gen=gen, klen=klen)))
            jobs.append(('ec_scalar_mem', dict(curve=curve, gen=gen, klen=n + 2, ones=True)))
        jobs.append(('ec_scalar_mem', dict(curve=curve, gen=True, klen=0)))
    return jobs


def run_ec_new_point_c(env, sh):
    """ec_ws_new_point on concrete candidates around the curve (LLSYM as bounds-checking interpreter): accepted exactly
    when the textbook curve equation holds (with (0, 0) as the conventional encoding of the neutral element); points with
    x = 0 or y = 0 and neighbours of valid points included"""
    from vlib.models import ecref
    from Crypto.PublicKey import ECC
    K = kern.kernel(env, EC_UNIT)
    if env.sym:
        K.m.step_budget = 80000000
    name = sh['curve']
    c = ECC._curves[name]
    p, b = int(c.p), int(c.b)
    n = (p.bit_length() + 7) // 8
    cur = ecref.Curve('ws', name, p, n, b=b, order=int(c.order))
    G = (int(c.Gx), int(c.Gy))
    add = lambda A, B: ecref.ws_add(cur, A, B)
    Q = ecref.generic_smul(add, (0, 0), 7, G)
    cands = [G, Q, (G[0], (G[1] + 1) % p), ((G[0] + 1) % p, G[1]), (G[0], 0), (Q[0], 0), (0, G[1]), (0, 0), (0, 1), (1, 0), (G[0], p - G[1]), (G[1], G[0]), (p - 1, 0)]
    if p % 4 == 3:
        r = pow(b, (p + 1) // 4, p)            # the points with x = 0, when b is a square
        if r * r % p == b:
            cands += [(0, r), (0, p - r)]
    slot = K.ptr_slot()
    r0 = K.call('ec_ws_new_context', slot, K.buf(p.to_bytes(n, 'big'), False, 'p'), K.buf(b.to_bytes(n, 'big'), False, 'b'),
                K.buf(int(c.order).to_bytes(n, 'big'), False, 'order'), n, 0x1122334455667788)
    env.check(r0 == 0, 'context created')
    ctx = K.deref(slot)
    for i, (x, y) in enumerate(cands):
        sl = K.ptr_slot()
        rr = K.call('ec_ws_new_point', sl, K.buf(x.to_bytes(n, 'big'), False, 'x%d' % i), K.buf(y.to_bytes(n, 'big'), False, 'y%d' % i), n, ctx)
        want = (x, y) == (0, 0) or ecref.ws_on_curve(cur, x, y)
        env.check((rr == 0) == want, 'ec_ws_new_point(candidate %d: x %s, y %s) is %s' % (i, 'zero' if x == 0 else 'non-zero', 'zero' if y == 0 else 'non-zero',
                                                                                      'accepted (on the curve)' if want else 'refused (off the curve)'))
        if rr == 0:
            K.call('ec_ws_free_point', K.deref(sl))
    K.call('ec_ws_free_context', ctx)
    K.check_memory_safe()
    env.check(K.live_heap() == [], 'nothing leaks, also on the refusal paths')


HARNESS_NEW_POINT = Harness('ec_new_point_c', run_ec_new_point_c, budget_s=900)


def run_ec_cmp_c(env, sh):
    """ec_ws_cmp on concrete pairs incl. the neutral element on either side and projectively different representations of
    one point (LLSYM as bounds-checking interpreter): 0 exactly when the two points are equal in the textbook group"""
    from vlib.models import ecref
    from Crypto.PublicKey import ECC
    K = kern.kernel(env, EC_UNIT)
    if env.sym:
        K.m.step_budget = 80000000
    name = sh['curve']
    c = ECC._curves[name]
    p, b = int(c.p), int(c.b)
    n = (p.bit_length() + 7) // 8
    cur = ecref.Curve('ws', name, p, n, b=b, order=int(c.order))
    G = (int(c.Gx), int(c.Gy))
    add = lambda A, B: ecref.ws_add(cur, A, B)
    Q = ecref.generic_smul(add, (0, 0), 5, G)
    slot = K.ptr_slot()
    env.check(K.call('ec_ws_new_context', slot, K.buf(p.to_bytes(n, 'big'), False, 'p'), K.buf(b.to_bytes(n, 'big'), False, 'b'),
                     K.buf(int(c.order).to_bytes(n, 'big'), False, 'order'), n, 0x1122334455667788) == 0, 'context created')
    ctx = K.deref(slot)
    cnt = [0]

    def point(P):
        cnt[0] += 1
        sl = K.ptr_slot()
        env.check(K.call('ec_ws_new_point', sl, K.buf(P[0].to_bytes(n, 'big'), False, 'x%d' % cnt[0]), K.buf(P[1].to_bytes(n, 'big'), False, 'y%d' % cnt[0]), n, ctx) == 0, 'point created')
        return K.deref(sl)
    O = (0, 0)
    pts = dict(G=(point(G), G), G2=(point(G), G), Q=(point(Q), Q), O=(point(O), O), O2=(point(O), O), N=(point((G[0], p - G[1])), (G[0], p - G[1])))
    # projective representations: G + Q computed both ways, G + (-G) = O, 2G by doubling and by addition
    s1, s2 = point(G), point(Q)
    K.call('ec_ws_add', s1, pts['Q'][0])
    K.call('ec_ws_add', s2, pts['G'][0])
    pts['GQ'] = (s1, add(G, Q))
    pts['QG'] = (s2, add(Q, G))
    z = point(G)
    K.call('ec_ws_add', z, pts['N'][0])
    pts['Z'] = (z, O)
    d1, d2 = point(G), point(G)
    K.call('ec_ws_double', d1)
    K.call('ec_ws_add', d2, pts['G2'][0])
    pts['D1'] = (d1, add(G, G))
    pts['D2'] = (d2, add(G, G))
    names = sorted(pts)
    for a in names:
        for bb in names:
            r = K.call('ec_ws_cmp', pts[a][0], pts[bb][0])
            env.check((r == 0) == (pts[a][1] == pts[bb][1]), 'ec_ws_cmp(%s, %s) is %s' % (a, bb, 'zero (equal points)' if pts[a][1] == pts[bb][1] else 'non-zero (different points)'))
    K.check_memory_safe()


HARNESS_CMP = Harness('ec_cmp_c', run_ec_cmp_c, budget_s=900)


HARNESS = Harness('ec_scalar_mem', run_ec_scalar_mem, budget_s=900)
