"""C15 -- HPKE contexts conform to RFC 9180 for every suite, mode and message history.

Engine: PYSYM on the real Protocol/HPKE.py (+ real KDF._HKDF_*, HMAC, DH.key_agreement, GcmMode,
ChaCha20Poly1305Cipher underneath).
* step: ONE inductive step of seal()/unseal() from a context whose sequence number is an arbitrary
  96-bit solver variable (covers all message histories by induction on the number of calls);
* schedule: KEM + key schedule of RFC 9180 s4.1/s5.1 for every KEM x AEAD x mode with symbolic
  info/psk/psk_id and symbolic private scalars over the abstract EC group of vlib/pysym/ecnat.py.
"""
from vlib.env import Harness
from vlib.models import aead as M

LEVEL = "model_checking"
MAXSEQ = (1 << 96) - 1


def _ctx(env, sh, role):
    from Crypto.Protocol import HPKE
    c = HPKE.HPKE_Cipher.__new__(HPKE.HPKE_Cipher)
    aead = HPKE.AEAD(sh['aead'])
    nk = 16 if sh['aead'] == 1 else 32
    c._aead_id = aead
    c._Nk, c._Nn, c._Nt = nk, 12, 16
    c._key = env.bytes('key', nk)
    c._base_nonce = env.bytes('base_nonce', 12)
    c._encrypt = role == 'S'
    c._max_sequence = MAXSEQ
    c.enc = b''
    return c, HPKE


def _aead(P, sh, key, nonce, aad, data, decrypt):
    if sh['aead'] in (1, 2):
        o, t = M.gcm(P, 'AES', key, nonce, aad, data, decrypt)
        return o, t
    return M.chacha20_poly1305(P, key, nonce, aad, data, decrypt)


def _seq(env, sh):
    if sh.get('seq') == 'max':
        return MAXSEQ
    if sh.get('seq') == 'zero':
        return 0
    return env.int('seq', 96)


def run_unseal_step(env, sh):
    P = env.P
    c, HPKE = _ctx(env, sh, 'R')
    seq = _seq(env, sh)
    c._sequence = seq
    aad = env.bytes('aad', sh['alen'])
    msg = env.bytes('msg', sh['mlen'])
    try:
        pt = c.unseal(msg, aad if sh['alen'] or not sh.get('aad_none') else None)
        ok = True
    except ValueError:
        ok = False
    if sh['mlen'] < 16:
        env.check(not ok, 'messages shorter than the tag are refused')
        env.check(c._sequence == seq, 'a refused message leaves the sequence number unchanged')
        return
    nonce = P.xor(c._base_nonce, P.i2b(seq, 12)) if True else None
    ct, tag = msg[:sh['mlen'] - 16], msg[sh['mlen'] - 16:]
    ref_pt, ref_tag = _aead(P, sh, c._key, nonce, aad, ct, True)
    exhausted = seq >= MAXSEQ
    env.iff(ok, env.And(env.Not(exhausted), tag == ref_tag),
            'unseal accepts iff the sequence is not exhausted and the tag is the AEAD tag under base_nonce xor seq')
    if ok:
        env.check(pt == ref_pt, 'opened plaintext == AEAD.Open(key, base_nonce xor seq, aad, ct)')
        env.check(c._sequence == seq + 1, 'sequence number advances by exactly one after a successful open')
    else:
        # RFC 9180 5.2 ContextR.Open: IncrementSeq only after a successful open, so that the next
        # genuine message still opens
        env.check(c._sequence == seq, 'a rejected message leaves the sequence number unchanged')


def run_seal_step(env, sh):
    P = env.P
    c, HPKE = _ctx(env, sh, 'S')
    seq = _seq(env, sh)
    c._sequence = seq
    aad = env.bytes('aad', sh['alen'])
    pt = env.bytes('pt', sh['mlen'])
    try:
        out = c.seal(pt, aad)
        ok = True
    except ValueError:
        ok = False
    env.iff(ok, seq < MAXSEQ, 'seal refuses exactly when the sequence number is exhausted')
    if not ok:
        env.check(c._sequence == seq, 'refusal leaves the sequence number unchanged')
        return
    nonce = P.xor(c._base_nonce, P.i2b(seq, 12))
    ref_ct, ref_tag = _aead(P, sh, c._key, nonce, aad, pt, False)
    env.check(out == P.concat(ref_ct, ref_tag), 'sealed == AEAD.Seal(key, base_nonce xor seq, aad, pt)')
    env.check(c._sequence == seq + 1, 'sequence number advances by exactly one')
    # the receiver at the same sequence number opens it and ends at the same successor state
    r, _ = _ctx(env, sh, 'R')
    r._key, r._base_nonce = c._key, c._base_nonce
    r._sequence = seq
    try:
        back = r.unseal(out, aad)
    except ValueError:
        env.check(False, 'genuine message at the matching sequence number must open')
        return
    env.check(back == pt, 'round trip')
    env.check(r._sequence == seq + 1, 'receiver advances by exactly one')


def run_wrong_role(env, sh):
    c, HPKE = _ctx(env, sh, sh['role'])
    c._sequence = env.int('seq', 96)
    data = env.bytes('d', 20)
    try:
        if sh['role'] == 'S':
            c.unseal(data)
        else:
            c.seal(data)
        env.check(False, 'a sender context cannot unseal and a receiver context cannot seal')
    except ValueError:
        env.check(True, 'refused')


def run_nonce_distinct(env, sh):
    """two sequence numbers give two different nonces (no nonce shared by successive messages)"""
    P = env.P
    bn = env.bytes('base_nonce', 12)
    a = env.int('seq_a', 96)
    b = env.int('seq_b', 96)
    env.assume(a != b)
    env.check(env.Not(P.xor(bn, P.i2b(a, 12)) == P.xor(bn, P.i2b(b, 12))), 'distinct seq => distinct nonce')


# ------------------------------------------------------------------ set-up: KEM + key schedule

from vlib.models import hpke as R

NB = {'NIST P-256': 32, 'NIST P-384': 48, 'NIST P-521': 66, 'Curve25519': 32, 'Curve448': 56}
SEED = {'Curve25519': 32, 'Curve448': 56}


def _sym_key(env, curve, name):
    from Crypto.PublicKey import ECC
    if curve in SEED:
        try:
            return ECC.construct(curve=curve, seed=env.bytes(name + '_seed', SEED[curve]))
        except ValueError:
            # abstract group: the uninterpreted public point may coincide with a listed low-order point;
            # the real group excludes that for clamped scalars -- path outside the model
            env.assume(False)
    order = int(ECC._curves[curve].order)
    d = env.int(name + '_d', sh_bits(order))
    # scalars of full byte length (the library encodes scalars at minimal length, which would otherwise
    # fork once per possible length at every multiplication); shorter scalars are outside this harness
    env.assume(env.And(d >= (1 << (8 * ((order.bit_length() + 7) // 8 - 1))), d < order))
    return ECC.construct(curve=curve, d=d)


def sh_bits(order):
    return order.bit_length()


def _ser(env, curve, key):
    """RFC 9180 s7.1.1 SerializePublicKey"""
    P = env.P
    q = key.pointQ
    n = NB[curve]
    if curve in SEED:
        return P.i2b(_iv(q.x), n, 'little')
    return P.concat(b"\x04", P.i2b(_iv(q.x), n), P.i2b(_iv(q.y), n))


def _iv(x):
    v = getattr(x, '_value', None)
    return v if v is not None else int(x)


def _dh(env, curve, priv, pub):
    """RFC 9180 s7.1: DH(skX, pkY) = x-coordinate of skX * pkY (I2OSP for NIST, little-endian for X curves)"""
    P = env.P
    pt = pub.pointQ * priv.d
    n = NB[curve]
    if curve in SEED:
        return P.i2b(_iv(pt.x), n, 'little')
    return P.i2b(_iv(pt.x), n)


def _mode(auth, psk):
    return (2 if auth else 0) + (1 if psk else 0)


def run_setup(env, sh):
    """Encap/Decap + KeySchedule of sender and receiver == RFC 9180 for symbolic keys, info, psk, psk_id"""
    from Crypto.Protocol import HPKE
    from Crypto.PublicKey import ECC
    P = env.P
    curve, aead, auth, use_psk = sh['curve'], sh['aead'], sh['auth'], sh['psk']
    env.concrete_rng(11)
    skR = _sym_key(env, curve, 'skR')
    skS = _sym_key(env, curve, 'skS') if auth else None
    skE = _sym_key(env, curve, 'skE')
    info = env.bytes('info', sh['info'])
    psk = (env.bytes('psk_id', sh['pskid']), env.bytes('psk', sh['psklen'])) if use_psk else None
    real_generate = ECC.generate
    ECC.generate = lambda **kw: skE
    try:
        try:
            tx = HPKE.new(receiver_key=skR.public_key(), aead_id=HPKE.AEAD(aead), sender_key=skS, psk=psk, info=info)
        except ValueError as e:
            if 'Invalid ECDH point' in str(e):
                # abstract group: the uninterpreted product may be the neutral element, which the real
                # prime-order group excludes for scalars in [1, order-1] -- path outside the model
                env.assume(False)
            env.check(False, 'a valid sender set-up is not refused (%s)' % (str(e)[:80],))
            return
    finally:
        ECC.generate = real_generate
        env.concrete_rng(None)
    enc = _ser(env, curve, skE.public_key())
    pkRm = _ser(env, curve, skR.public_key())
    env.check(tx.enc == enc, 'enc == SerializePublicKey(pkE)')
    kem_context = P.concat(enc, pkRm, _ser(env, curve, skS.public_key())) if auth else P.concat(enc, pkRm)
    dh = _dh(env, curve, skE, skR.public_key())
    if auth:
        dh = P.concat(dh, _dh(env, curve, skS, skR.public_key()))
    shared = R.extract_and_expand(P, curve, dh, kem_context)
    pid, pv = psk if use_psk else (P.const(b""), P.const(b""))
    key, nonce, exp = R.key_schedule(P, curve, aead, _mode(auth, use_psk), shared, info, pv, pid)
    env.check(tx._key == key, 'sender key == RFC 9180 KeySchedule')
    env.check(tx._base_nonce == nonce, 'sender base_nonce == RFC 9180 KeySchedule')
    env.check(tx._sequence == 0, 'sequence number starts at 0')
    # receiver
    env.concrete_rng(12)
    try:
        try:
            rx = HPKE.new(receiver_key=skR, aead_id=HPKE.AEAD(aead), enc=tx.enc, sender_key=skS.public_key() if auth else None,
                          psk=psk, info=info)
        except ValueError as e:
            # abstract group: the uninterpreted pkE may coincide with a listed low-order point (X curves)
            # or a product may be the neutral element -- excluded by the real group; outside the model
            if curve in SEED or 'Invalid ECDH point' in str(e):
                env.assume(False)
            env.check(False, 'a genuine enc is accepted by the receiver (%s)' % (str(e)[:80],))
            return
    finally:
        env.concrete_rng(None)
    env.check(rx._key == key, 'receiver key == sender key == RFC 9180 (needs only DH commutation)')
    env.check(rx._base_nonce == nonce, 'receiver base_nonce == sender base_nonce')
    env.check(rx._sequence == 0, 'sequence number starts at 0')


def run_decap_binding(env, sh):
    """receiver offered an ARBITRARY enc: kem_context binds the enc bytes exactly as received"""
    from Crypto.Protocol import HPKE
    from Crypto.PublicKey import ECC
    P = env.P
    curve, aead = sh['curve'], sh['aead']
    env.concrete_rng(13)
    try:
        skR = _sym_key(env, curve, 'skR')
        n = NB[curve]
        # NIST: uncompressed SEC1 form (RFC 9180 7.1.1); the leading octet is fixed so that the PEM/OpenSSH
        # text sniffing of import_key (symbolic text) is not entered
        enc = env.bytes('enc', n) if curve in SEED else P.concat(b"\x04", env.bytes('enc', 2 * n))
        info = env.bytes('info', 3)
        try:
            rx = HPKE.new(receiver_key=skR, aead_id=HPKE.AEAD(aead), enc=enc, info=info)
        except ValueError:
            env.check(True, 'enc refused')
            return
        # deserialise as the library does, then RFC 9180 Decap with kem_context = enc || pkRm
        if curve == 'Curve25519':
            from Crypto.Protocol.DH import import_x25519_public_key as imp
            pkE = imp(enc)
        elif curve == 'Curve448':
            from Crypto.Protocol.DH import import_x448_public_key as imp
            pkE = imp(enc)
        else:
            pkE = ECC.import_key(enc, curve_name=curve)
        dh = _dh(env, curve, skR, pkE)
        shared = R.extract_and_expand(P, curve, dh, P.concat(enc, _ser(env, curve, skR.public_key())))
        key, nonce, _ = R.key_schedule(P, curve, aead, 0, shared, info, P.const(b""), P.const(b""))
        env.check(rx._key == key, 'key derives from kem_context = enc (as received) || pkRm')
        env.check(rx._base_nonce == nonce, 'base_nonce derives from kem_context = enc (as received) || pkRm')
    finally:
        env.concrete_rng(None)


def run_psk_matrix(env, sh):
    """RFC 9180 s5.1 VerifyPSKInputs, on BOTH roles"""
    from Crypto.Protocol import HPKE
    from Crypto.PublicKey import ECC
    curve = 'NIST P-256'
    env.concrete_rng(14)
    try:
        skR = ECC.construct(curve=curve, d=sh.get('d', 7))
        skE = ECC.construct(curve=curve, d=11)
        pskid = env.bytes('psk_id', sh['pskid'])
        pskv = env.bytes('psk', sh['psklen'])
        psk = None if sh.get('none') else (pskid, pskv)
        valid = sh.get('none') or (sh['pskid'] > 0 and sh['psklen'] >= 32)
        try:
            if sh['role'] == 'S':
                HPKE.new(receiver_key=skR.public_key(), aead_id=HPKE.AEAD(1), psk=psk, info=b"i")
            else:
                HPKE.new(receiver_key=skR, aead_id=HPKE.AEAD(1), enc=skE.public_key().export_key(format='raw'), psk=psk, info=b"i")
            ok = True
        except ValueError:
            ok = False
        env.check(ok == bool(valid), 'set-up succeeds exactly for consistent PSK inputs (both empty / absent, or id non-empty and psk >= 32 bytes)')
    finally:
        env.concrete_rng(None)


HARNESSES = dict(setup=Harness('setup', run_setup, max_paths=2000), decap_binding=Harness('decap_binding', run_decap_binding, max_paths=2000),
                 psk_matrix=Harness('psk_matrix', run_psk_matrix),
                 unseal_step=Harness('unseal_step', run_unseal_step), seal_step=Harness('seal_step', run_seal_step),
                 wrong_role=Harness('wrong_role', run_wrong_role), nonce_distinct=Harness('nonce_distinct', run_nonce_distinct))


def shapes(tier):
    th = tier == 'thorough'
    jobs = []
    lens = (0, 1, 16, 17, 33, 40) if th else (0, 1, 17)
    for aead in (1, 2, 3):
        for a in lens:
            for m in lens:
                jobs.append(('seal_step', dict(aead=aead, alen=a, mlen=m)))
                jobs.append(('unseal_step', dict(aead=aead, alen=a, mlen=m + 16)))
            jobs.append(('unseal_step', dict(aead=aead, alen=a, mlen=15)))
            jobs.append(('unseal_step', dict(aead=aead, alen=a, mlen=0)))
        for s in ('max', 'zero'):
            jobs.append(('seal_step', dict(aead=aead, alen=1, mlen=1, seq=s)))
            jobs.append(('unseal_step', dict(aead=aead, alen=1, mlen=17, seq=s)))
        for role in ('S', 'R'):
            jobs.append(('wrong_role', dict(aead=aead, role=role)))
    jobs.append(('nonce_distinct', dict()))
    curves = ('NIST P-256', 'NIST P-384', 'NIST P-521', 'Curve25519', 'Curve448')
    for ci, curve in enumerate(curves):
        for aead in (1, 2, 3):
            for auth in (False, True):
                for psk in (False, True):
                    if not th and not ((aead == 1 + ci % 3) or (curve == 'NIST P-256' and aead == 1)):
                        continue
                    jobs.append(('setup', dict(curve=curve, aead=aead, auth=auth, psk=psk, info=(5 if th else 3),
                                               pskid=4, psklen=32 if not th else 40)))
        jobs.append(('decap_binding', dict(curve=curve, aead=1)))
    for role in ('S', 'R'):
        for pskid, psklen in ((0, 0), (0, 32), (3, 0), (3, 31), (3, 32), (1, 33)):
            jobs.append(('psk_matrix', dict(role=role, pskid=pskid, psklen=psklen)))
        jobs.append(('psk_matrix', dict(role=role, pskid=0, psklen=0, none=True)))
    return jobs


BOUNDS = dict(step="sequence number: arbitrary 96-bit value (symbolic); aad/plaintext lengths 0..40; all three AEADs",
              outside=["EC arithmetic, real hashes", "messages longer than 40 bytes"])
ASSUMPTIONS = ["AEAD primitives uninterpreted as in C01", "induction: one step from an arbitrary sequence number covers "
               "every interleaving of genuine/corrupted/replayed/out-of-order messages, because a replayed or "
               "out-of-order ciphertext is 'any other message' at the current sequence number"]
EXPLANATION = ("model checking by induction: one seal()/unseal() step of the real HPKE_Cipher from a context with an "
               "arbitrary symbolic 96-bit sequence number; z3 decides acceptance, output and successor state against "
               "RFC 9180 s5.2; plus the key schedule / KEM trace per suite and mode")


def check(res, tier):
    from vlib import common
    jobs = shapes(tier)
    common.run_pysym_grid(res, __name__, jobs)
    res.states = res.stats['paths']
    res.transitions = res.stats['paths']
    res.bounds.update(BOUNDS)
    res.assumptions.extend(ASSUMPTIONS)
    common.validate_concrete(res, __name__, jobs)
    return EXPLANATION
