"""C15 -- HPKE contexts conform to RFC 9180 for every suite, mode and message history.

Engine: PYSYM on the real Protocol/HPKE.py (+ real KDF._HKDF_*, HMAC, DH.key_agreement, GcmMode,
ChaCha20Poly1305Cipher underneath).
* step: ONE inductive step of seal()/unseal() from a context whose sequence number is an arbitrary
  96-bit solver variable (covers all message histories by induction on the number of calls);
* schedule: KEM + key schedule of RFC 9180 s4.1/s5.1 for every KEM x AEAD x mode with symbolic
  info/psk/psk_id and symbolic private scalars over the abstract EC group of vlib/pysym/ecnat.py.
"""
from vlib.env import Harness
from vlib.models import aead as M

LEVEL = "model_checking"
MAXSEQ = (1 << 96) - 1


def _ctx(env, sh, role):
    from Crypto.Protocol import HPKE
    c = HPKE.HPKE_Cipher.__new__(HPKE.HPKE_Cipher)
    aead = HPKE.AEAD(sh['aead'])
    nk = 16 if sh['aead'] == 1 else 32
    c._aead_id = aead
    c._Nk, c._Nn, c._Nt = nk, 12, 16
    c._key = env.bytes('key', nk)
    c._base_nonce = env.bytes('base_nonce', 12)
    c._encrypt = role == 'S'
    c._max_sequence = MAXSEQ
    c.enc = b''
    return c, HPKE


def _aead(P, sh, key, nonce, aad, data, decrypt):
    if sh['aead'] in (1, 2):
        o, t = M.gcm(P, 'AES', key, nonce, aad, data, decrypt)
        return o, t
    return M.chacha20_poly1305(P, key, nonce, aad, data, decrypt)


def _seq(env, sh):
    if sh.get('seq') == 'max':
        return MAXSEQ
    if sh.get('seq') == 'zero':
        return 0
    return env.int('seq', 96)


def run_unseal_step(env, sh):
    P = env.P
    c, HPKE = _ctx(env, sh, 'R')
    seq = _seq(env, sh)
    c._sequence = seq
    aad = env.bytes('aad', sh['alen'])
    msg = env.bytes('msg', sh['mlen'])
    try:
        pt = c.unseal(msg, aad if sh['alen'] or not sh.get('aad_none') else None)
        ok = True
    except ValueError:
        ok = False
    if sh['mlen'] < 16:
        env.check(not ok, 'messages shorter than the tag are refused')
        env.check(c._sequence == seq, 'a refused message leaves the sequence number unchanged')
        return
    nonce = P.xor(c._base_nonce, P.i2b(seq, 12)) if True else None
    ct, tag = msg[:sh['mlen'] - 16], msg[sh['mlen'] - 16:]
    ref_pt, ref_tag = _aead(P, sh, c._key, nonce, aad, ct, True)
    exhausted = seq >= MAXSEQ
    env.iff(ok, env.And(env.Not(exhausted), tag == ref_tag),
            'unseal accepts iff the sequence is not exhausted and the tag is the AEAD tag under base_nonce xor seq')
    if ok:
        env.check(pt == ref_pt, 'opened plaintext == AEAD.Open(key, base_nonce xor seq, aad, ct)')
        env.check(c._sequence == seq + 1, 'sequence number advances by exactly one after a successful open')
    else:
        # RFC 9180 5.2 ContextR.Open: IncrementSeq only after a successful open, so that the next
        # genuine message still opens
        env.check(c._sequence == seq, 'a rejected message leaves the sequence number unchanged')


def run_seal_step(env, sh):
    P = env.P
    c, HPKE = _ctx(env, sh, 'S')
    seq = _seq(env, sh)
    c._sequence = seq
    aad = env.bytes('aad', sh['alen'])
    pt = env.bytes('pt', sh['mlen'])
    try:
        out = c.seal(pt, aad)
        ok = True
    except ValueError:
        ok = False
    env.iff(ok, seq < MAXSEQ, 'seal refuses exactly when the sequence number is exhausted')
    if not ok:
        env.check(c._sequence == seq, 'refusal leaves the sequence number unchanged')
        return
    nonce = P.xor(c._base_nonce, P.i2b(seq, 12))
    ref_ct, ref_tag = _aead(P, sh, c._key, nonce, aad, pt, False)
    env.check(out == P.concat(ref_ct, ref_tag), 'sealed == AEAD.Seal(key, base_nonce xor seq, aad, pt)')
    env.check(c._sequence == seq + 1, 'sequence number advances by exactly one')
    # the receiver at the same sequence number opens it and ends at the same successor state
    r, _ = _ctx(env, sh, 'R')
    r._key, r._base_nonce = c._key, c._base_nonce
    r._sequence = seq
    try:
        back = r.unseal(out, aad)
    except ValueError:
        env.check(False, 'genuine message at the matching sequence number must open')
        return
    env.check(back == pt, 'round trip')
    env.check(r._sequence == seq + 1, 'receiver advances by exactly one')


def run_wrong_role(env, sh):
    c, HPKE = _ctx(env, sh, sh['role'])
    c._sequence = env.int('seq', 96)
    data = env.bytes('d', 20)
    try:
        if sh['role'] == 'S':
            c.unseal(data)
        else:
            c.seal(data)
        env.check(False, 'a sender context cannot unseal and a receiver context cannot seal')
    except ValueError:
        env.check(True, 'refused')


def run_nonce_distinct(env, sh):
    """two sequence numbers give two different nonces (no nonce shared by successive messages)"""
    P = env.P
    bn = env.bytes('base_nonce', 12)
    a = env.int('seq_a', 96)
    b = env.int('seq_b', 96)
    env.assume(a != b)
    env.check(env.Not(P.xor(bn, P.i2b(a, 12)) == P.xor(bn, P.i2b(b, 12))), 'distinct seq => distinct nonce')


HARNESSES = dict(unseal_step=Harness('unseal_step', run_unseal_step), seal_step=Harness('seal_step', run_seal_step),
                 wrong_role=Harness('wrong_role', run_wrong_role), nonce_distinct=Harness('nonce_distinct', run_nonce_distinct))


def shapes(tier):
    th = tier == 'thorough'
    jobs = []
    lens = (0, 1, 16, 17, 33, 40) if th else (0, 1, 17)
    for aead in (1, 2, 3):
        for a in lens:
            for m in lens:
                jobs.append(('seal_step', dict(aead=aead, alen=a, mlen=m)))
                jobs.append(('unseal_step', dict(aead=aead, alen=a, mlen=m + 16)))
            jobs.append(('unseal_step', dict(aead=aead, alen=a, mlen=15)))
            jobs.append(('unseal_step', dict(aead=aead, alen=a, mlen=0)))
        for s in ('max', 'zero'):
            jobs.append(('seal_step', dict(aead=aead, alen=1, mlen=1, seq=s)))
            jobs.append(('unseal_step', dict(aead=aead, alen=1, mlen=17, seq=s)))
        for role in ('S', 'R'):
            jobs.append(('wrong_role', dict(aead=aead, role=role)))
    jobs.append(('nonce_distinct', dict()))
    return jobs


BOUNDS = dict(step="sequence number: arbitrary 96-bit value (symbolic); aad/plaintext lengths 0..40; all three AEADs",
              outside=["EC arithmetic, real hashes", "messages longer than 40 bytes"])
ASSUMPTIONS = ["AEAD primitives uninterpreted as in C01", "induction: one step from an arbitrary sequence number covers "
               "every interleaving of genuine/corrupted/replayed/out-of-order messages, because a replayed or "
               "out-of-order ciphertext is 'any other message' at the current sequence number"]
EXPLANATION = ("model checking by induction: one seal()/unseal() step of the real HPKE_Cipher from a context with an "
               "arbitrary symbolic 96-bit sequence number; z3 decides acceptance, output and successor state against "
               "RFC 9180 s5.2; plus the key schedule / KEM trace per suite and mode")


def check(res, tier):
    from vlib import common
    jobs = shapes(tier)
    common.run_pysym_grid(res, __name__, jobs)
    res.states = res.stats['paths']
    res.transitions = res.stats['paths']
    res.bounds.update(BOUNDS)
    res.assumptions.extend(ASSUMPTIONS)
    common.validate_concrete(res, __name__, jobs)
    return EXPLANATION
