"""C08 -- key export then import is the identity; encodings canonical; == is semantic.

Engine: PYSYM.  Harnesses:
  eq_*      : `==` on two key objects of one type whose integer components are independent solver
              variables: the result must be True exactly when privacy and all components coincide
              (an exception counts as 'not equal').
  rt_*      : export -> import round trips with symbolic integer components through the real DER /
              PKCS#8 / SPKI / OpenSSH writers and readers (added incrementally).
"""
from vlib.env import Harness


def _Integer():
    from Crypto.Math.Numbers import Integer
    return Integer


def _eq_outcome(a, b):
    try:
        return a == b
    except Exception:       # noqa: BLE001
        return False


def _expected(env, priv_a, priv_b, pairs):
    if priv_a != priv_b:
        return False
    return env.And(*[x == y for x, y in pairs])


def _mk_rsa(env, tag, priv, bits):
    from Crypto.PublicKey.RSA import RsaKey
    I = _Integer()
    names = ('n', 'e', 'd', 'p', 'q', 'u') if priv else ('n', 'e')
    vals = {k: env.int('%s_%s' % (tag, k), bits) for k in names}
    if priv:
        env.assume(env.And(vals['p'] >= 2, vals['q'] >= 2))     # RsaKey derives d mod (p-1), d mod (q-1)
    return RsaKey(**{k: I(v) for k, v in vals.items()}), vals


def run_eq_rsa(env, sh):
    a, va = _mk_rsa(env, 'a', sh['priv_a'], sh['bits'])
    b, vb = _mk_rsa(env, 'b', sh['priv_b'], sh['bits'])
    # (n, e, d) determine a valid RSA key; p, q, u follow from them up to the order of the factors,
    # so they are not part of the expected predicate (arbitrary symbolic tuples need not be valid keys)
    exp = _expected(env, sh['priv_a'], sh['priv_b'], [(va[k], vb[k]) for k in ('n', 'e', 'd') if k in va and k in vb])
    env.iff(_eq_outcome(a, b), exp, 'RSA == iff same privacy and same (n, e, d)')
    env.iff(env.Not(_ne(a, b)), exp, 'RSA != is the negation of ==')


def _ne(a, b):
    try:
        return a != b
    except Exception:       # noqa: BLE001
        return True


def _mk_dsa(env, tag, priv, bits):
    from Crypto.PublicKey.DSA import DsaKey
    I = _Integer()
    names = ('y', 'g', 'p', 'q', 'x') if priv else ('y', 'g', 'p', 'q')
    vals = {k: env.int('%s_%s' % (tag, k), bits) for k in names}
    return DsaKey({k: I(v) for k, v in vals.items()}), vals


def run_eq_dsa(env, sh):
    a, va = _mk_dsa(env, 'a', sh['priv_a'], sh['bits'])
    b, vb = _mk_dsa(env, 'b', sh['priv_b'], sh['bits'])
    exp = _expected(env, sh['priv_a'], sh['priv_b'], [(va[k], vb[k]) for k in va if k in vb])
    env.iff(_eq_outcome(a, b), exp, 'DSA == iff same privacy and same components')


def _mk_elgamal(env, tag, priv, bits):
    from Crypto.PublicKey.ElGamal import ElGamalKey
    I = _Integer()
    names = ('p', 'g', 'y', 'x') if priv else ('p', 'g', 'y')
    vals = {k: env.int('%s_%s' % (tag, k), bits) for k in names}
    k = ElGamalKey()
    for n, v in vals.items():
        setattr(k, n, I(v))
    return k, vals


def run_eq_elgamal(env, sh):
    a, va = _mk_elgamal(env, 'a', sh['priv_a'], sh['bits'])
    b, vb = _mk_elgamal(env, 'b', sh['priv_b'], sh['bits'])
    exp = _expected(env, sh['priv_a'], sh['priv_b'], [(va[k], vb[k]) for k in va if k in vb])
    env.iff(_eq_outcome(a, b), exp, 'ElGamal == iff same privacy and same components')


def run_eq_ecc(env, sh):
    """two keys on one curve from independent symbolic private scalars / seeds (public points over the
    abstract group): same secret => equal; equal => same public point; different privacy => not equal"""
    from Crypto.PublicKey import ECC
    if sh['curve'].startswith('P-'):
        order = ECC._curves[sh['curve']].order
        da = env.int('da', sh['bits'])
        db = env.int('db', sh['bits'])
        env.assume(env.And(da >= 1, db >= 1, da < int(order), db < int(order)))
        ka = ECC.construct(curve=sh['curve'], d=da)
        kb = ECC.construct(curve=sh['curve'], d=db)
        same_secret = da == db
    else:
        n = 32 if sh['curve'] == 'Ed25519' else 57
        sa, sb = env.bytes('seed_a', n), env.bytes('seed_b', n)
        ka = ECC.construct(curve=sh['curve'], seed=sa)
        kb = ECC.construct(curve=sh['curve'], seed=sb)
        same_secret = sa == sb
    if not sh['priv_a']:
        ka = ka.public_key()
    if not sh['priv_b']:
        kb = kb.public_key()
    r = _eq_outcome(ka, kb)
    if sh['priv_a'] != sh['priv_b']:
        env.check(env.Not(r), 'ECC keys of different privacy are not equal')
    else:
        env.check(env.implies(same_secret, r), 'same secret => equal')
        pa, pb = ka.pointQ, kb.pointQ
        env.check(env.implies(r, env.And(pa.x == pb.x, pa.y == pb.y)), 'equal => same public point')
    env.check(env.Not(_eq_outcome(ka, 5)), 'a key never equals a non-key')


def run_eq_cross(env, sh):
    a, _ = _mk_rsa(env, 'a', False, 16)
    b, _ = _mk_dsa(env, 'b', False, 16)
    c, _ = _mk_elgamal(env, 'c', False, 16)
    for x, y in ((a, b), (b, a), (a, c), (c, a), (b, c), (c, b)):
        env.check(env.Not(_eq_outcome(x, y)), 'keys of different types are never equal')


def run_eq_ecc_curves(env, sh):
    """keys on DIFFERENT curves are never equal, whatever their scalars (also when the scalars coincide)"""
    from Crypto.PublicKey import ECC
    ca, cb = sh['ca'], sh['cb']
    d = env.int('d', 64)
    env.assume(d >= 1)
    ka = ECC.construct(curve=ca, d=d)
    kb = ECC.construct(curve=cb, d=d if sh['same_d'] else env.int('d2', 64) + 1)
    if not sh['priv']:
        ka, kb = ka.public_key(), kb.public_key()
    env.check(env.Not(_eq_outcome(ka, kb)), 'keys on %s and %s are not equal' % (ca, cb))
    env.check(env.Not(_eq_outcome(kb, ka)), 'keys on %s and %s are not equal (other order)' % (cb, ca))


# ---- export -> import round trips

NBY = {'P-192': 24, 'P-224': 28, 'P-256': 32, 'P-384': 48, 'P-521': 66, 'Ed25519': 32, 'Ed448': 57, 'Curve25519': 32, 'Curve448': 56}


def _ecc_key(env, curve, lead):
    from Crypto.PublicKey import ECC
    if not curve.startswith('P-'):
        try:
            return ECC.construct(curve=curve, seed=env.bytes('seed', NBY[curve]))
        except ValueError:
            env.assume(False)       # abstract-group artefact (listed low-order value), see C15
    order = int(ECC._curves[curve].order)
    nb = (order.bit_length() + 7) // 8
    d = env.int('d', order.bit_length())
    # private scalars whose big-endian encoding has `lead` leading zero bytes
    env.assume(env.And(d >= (1 << (8 * (nb - lead - 1))), d < (1 << (8 * (nb - lead))), d < order, d >= 1))
    return ECC.construct(curve=curve, d=d)


def run_ecc_rt(env, sh):
    from Crypto.PublicKey import ECC
    curve, fmt = sh['curve'], sh['fmt']
    key = _ecc_key(env, curve, sh.get('lead', 0))
    if not sh['priv']:
        key = key.public_key()
    kw = dict(format=fmt)
    if fmt == 'DER' and sh['priv']:
        kw['use_pkcs8'] = sh.get('pkcs8', True)
    if fmt in ('DER', 'SEC1') and not curve.startswith(('Ed', 'Curve')):
        kw['compress'] = False
    blob = key.export_key(**kw)
    try:
        if fmt in ('raw', 'SEC1'):
            back = ECC.import_key(blob, curve_name=curve)
        else:
            back = ECC.import_key(blob)
    except Exception as e:
        env.check(False, 'the exported key is accepted by import_key [%s: %s]' % (type(e).__name__, e))
        return
    env.check(back.has_private() == key.has_private(), 'privacy preserved by export/import')
    env.check(back.curve == key.curve, 'curve preserved by export/import')
    env.check(_eq_outcome(back, key), 'import(export(key)) == key')
    if key.has_private():
        if curve.startswith('P-'):
            env.check(_iv(back.d) == _iv(key.d), 'private scalar preserved')
        else:
            env.check(back.seed == key.seed, 'seed preserved')
    else:
        a, b = back.pointQ, key.pointQ
        env.check(_iv(a.x) == _iv(b.x), 'public point preserved')


def _iv(x):
    v = getattr(x, '_value', None)
    return v if v is not None else int(x)


def run_pbes2_rt(env, sh):
    """PBES2.decrypt(PBES2.encrypt(data, passphrase, scheme), passphrase) == data for every scheme, with data,
    passphrase, salt and IV symbolic (the parameters travel through the DER AlgorithmIdentifier: PRF OID table,
    AEAD tag placement, padding)"""
    from Crypto.IO._PBES import PBES2
    data = env.bytes('data', sh['n'])
    pw = env.bytes('pw', sh['pwlen'])
    cnt = [0]

    def rnd(n):
        cnt[0] += 1
        return env.bytes('rnd%d' % cnt[0], n)
    params = dict(iteration_count=sh.get('count', 2))
    if sh['prot'].startswith('scrypt'):
        params = dict(iteration_count=4, block_size=1, parallelization=1)
    try:
        blob = PBES2.encrypt(data, pw, sh['prot'], params, rnd)
    except ValueError:
        # a derived 3DES key may degenerate to single DES (refused by the cipher): outside the round trip
        env.check('DES-EDE3' in sh['prot'], 'encrypt() succeeds')
        env.assume(False)
        return
    try:
        back = PBES2.decrypt(blob, pw)
    except Exception as e:
        env.check(False, 'decrypt() accepts what encrypt() produced under the same passphrase [%s: %s]' % (type(e).__name__, e))
        return
    env.check(len(back) == len(data) and back == data, 'decrypt(encrypt(data)) == data under the same passphrase')


HARNESSES = dict(eq_rsa=Harness('eq_rsa', run_eq_rsa), eq_dsa=Harness('eq_dsa', run_eq_dsa),
                 eq_elgamal=Harness('eq_elgamal', run_eq_elgamal), eq_ecc=Harness('eq_ecc', run_eq_ecc),
                 eq_cross=Harness('eq_cross', run_eq_cross), eq_ecc_curves=Harness('eq_ecc_curves', run_eq_ecc_curves),
                 ecc_rt=Harness('ecc_rt', run_ecc_rt), pbes2_rt=Harness('pbes2_rt', run_pbes2_rt))


def shapes(tier):
    th = tier == 'thorough'
    jobs = []
    for h in ('eq_rsa', 'eq_dsa', 'eq_elgamal'):
        for bits in ((8, 16, 64, 521) if th else (16, 64)):
            for pa in (False, True):
                for pb in (False, True):
                    jobs.append((h, dict(bits=bits, priv_a=pa, priv_b=pb)))
    for curve in (('P-192', 'P-256', 'P-521', 'Ed25519', 'Ed448') if th else ('P-256', 'Ed25519')):
        for pa in (False, True):
            for pb in (False, True):
                jobs.append(('eq_ecc', dict(curve=curve, bits=64, priv_a=pa, priv_b=pb)))
    jobs.append(('eq_cross', dict()))
    for ca, cb in (('P-256', 'P-384'), ('P-192', 'P-224'), ('P-384', 'P-521')) if not th else (('P-256', 'P-384'), ('P-192', 'P-224'), ('P-384', 'P-521'), ('P-224', 'P-256'), ('P-192', 'P-521')):
        for same_d in (True, False):
            for priv in (True, False):
                jobs.append(('eq_ecc_curves', dict(ca=ca, cb=cb, same_d=same_d, priv=priv)))
    # export -> import round trips (binary formats)
    for curve in ('P-192', 'P-224', 'P-256', 'P-384', 'P-521') if th else ('P-256', 'P-521'):
        for lead in (0, 1, 2) if th else (0, 1):
            for pkcs8 in (True, False):
                jobs.append(('ecc_rt', dict(curve=curve, fmt='DER', priv=True, pkcs8=pkcs8, lead=lead)))
        jobs.append(('ecc_rt', dict(curve=curve, fmt='DER', priv=False)))
        jobs.append(('ecc_rt', dict(curve=curve, fmt='SEC1', priv=False)))
    for curve in ('Ed25519', 'Ed448', 'Curve25519', 'Curve448'):
        jobs.append(('ecc_rt', dict(curve=curve, fmt='DER', priv=True)))
        if curve.startswith('Curve'):
            jobs.append(('ecc_rt', dict(curve=curve, fmt='DER', priv=False)))
    prfs = ('SHA1', 'SHA224', 'SHA256', 'SHA384', 'SHA512', 'SHA512-224', 'SHA512-256', 'SHA3-224', 'SHA3-256', 'SHA3-384', 'SHA3-512')
    encs = ('DES-EDE3-CBC', 'AES128-CBC', 'AES192-CBC', 'AES256-CBC', 'AES128-GCM', 'AES192-GCM', 'AES256-GCM')
    for i, prf in enumerate(prfs):
        for j, enc in enumerate(encs):
            if th or (i + j) % 3 == 0 or enc == 'AES128-CBC':
                for n in (5, 16) if th else (5,):
                    jobs.append(('pbes2_rt', dict(prot='PBKDF2WithHMAC-%sAnd%s' % (prf, enc), n=n, pwlen=3)))
    for enc in encs:
        jobs.append(('pbes2_rt', dict(prot='scryptAnd%s' % enc, n=17, pwlen=4)))
    return jobs


BOUNDS = dict(eq="components: independent symbolic integers of 8..521 bits; every privacy combination; ECC keys on different curves with equal / different scalars",
              round_trips="ECC: DER (SPKI, RFC 5915, PKCS#8 in clear), SEC1 uncompressed, X25519/X448 SPKI; every private scalar with 0 / 1 (thorough 2) leading "
              "zero bytes, every seed; PBES2: every PBKDF2 PRF x cipher combination (quick: a third of them) and every scrypt scheme, 5..17 data bytes, symbolic passphrase / salt / IV",
              outside=["RSA / DSA export-import (their importers run the full consistency checks: symbolic only at toy width, see C05)", "PEM / OpenSSH text layer (base64 of symbolic bytes is not modelled)",
                       "SEC1 compressed and EdDSA public keys in any format (decompression needs a modular square root), raw X25519/X448 public keys", "PBES1", "wrong-passphrase refusal (not derivable over uninterpreted ciphers)",
                       "openssl as external oracle"])
ASSUMPTIONS = ["an exception raised by == counts as 'not equal'", "EC points over the abstract group of vlib/pysym/ecnat.py"]
EXPLANATION = ("bounded symbolic execution (PYSYM) of the real __eq__/__ne__ methods on key objects built from "
               "independent symbolic components; z3 decides 'equal <=> same privacy and all components equal'")
