"""C08 -- key export then import is the identity; encodings canonical; == is semantic.

Engine: PYSYM.  Harnesses:
  eq_*      : `==` on two key objects of one type whose integer components are independent solver
              variables: the result must be True exactly when privacy and all components coincide
              (an exception counts as 'not equal').
  rt_*      : export -> import round trips with symbolic integer components through the real DER /
              PKCS#8 / SPKI / OpenSSH writers and readers (added incrementally).
"""
from vlib.env import Harness


def _Integer():
    from Crypto.Math.Numbers import Integer
    return Integer


def _eq_outcome(a, b):
    try:
        return a == b
    except Exception:       # noqa: BLE001
        return False


def _expected(env, priv_a, priv_b, pairs):
    if priv_a != priv_b:
        return False
    return env.And(*[x == y for x, y in pairs])


def _mk_rsa(env, tag, priv, bits):
    from Crypto.PublicKey.RSA import RsaKey
    I = _Integer()
    names = ('n', 'e', 'd', 'p', 'q', 'u') if priv else ('n', 'e')
    vals = {k: env.int('%s_%s' % (tag, k), bits) for k in names}
    if priv:
        env.assume(env.And(vals['p'] >= 2, vals['q'] >= 2))     # RsaKey derives d mod (p-1), d mod (q-1)
    return RsaKey(**{k: I(v) for k, v in vals.items()}), vals


def run_eq_rsa(env, sh):
    a, va = _mk_rsa(env, 'a', sh['priv_a'], sh['bits'])
    b, vb = _mk_rsa(env, 'b', sh['priv_b'], sh['bits'])
    # (n, e, d) determine a valid RSA key; p, q, u follow from them up to the order of the factors,
    # so they are not part of the expected predicate (arbitrary symbolic tuples need not be valid keys)
    exp = _expected(env, sh['priv_a'], sh['priv_b'], [(va[k], vb[k]) for k in ('n', 'e', 'd') if k in va and k in vb])
    env.iff(_eq_outcome(a, b), exp, 'RSA == iff same privacy and same (n, e, d)')
    env.iff(env.Not(_ne(a, b)), exp, 'RSA != is the negation of ==')


def _ne(a, b):
    try:
        return a != b
    except Exception:       # noqa: BLE001
        return True


def _mk_dsa(env, tag, priv, bits):
    from Crypto.PublicKey.DSA import DsaKey
    I = _Integer()
    names = ('y', 'g', 'p', 'q', 'x') if priv else ('y', 'g', 'p', 'q')
    vals = {k: env.int('%s_%s' % (tag, k), bits) for k in names}
    return DsaKey({k: I(v) for k, v in vals.items()}), vals


def run_eq_dsa(env, sh):
    a, va = _mk_dsa(env, 'a', sh['priv_a'], sh['bits'])
    b, vb = _mk_dsa(env, 'b', sh['priv_b'], sh['bits'])
    exp = _expected(env, sh['priv_a'], sh['priv_b'], [(va[k], vb[k]) for k in va if k in vb])
    env.iff(_eq_outcome(a, b), exp, 'DSA == iff same privacy and same components')


def _mk_elgamal(env, tag, priv, bits):
    from Crypto.PublicKey.ElGamal import ElGamalKey
    I = _Integer()
    names = ('p', 'g', 'y', 'x') if priv else ('p', 'g', 'y')
    vals = {k: env.int('%s_%s' % (tag, k), bits) for k in names}
    k = ElGamalKey()
    for n, v in vals.items():
        setattr(k, n, I(v))
    return k, vals


def run_eq_elgamal(env, sh):
    a, va = _mk_elgamal(env, 'a', sh['priv_a'], sh['bits'])
    b, vb = _mk_elgamal(env, 'b', sh['priv_b'], sh['bits'])
    exp = _expected(env, sh['priv_a'], sh['priv_b'], [(va[k], vb[k]) for k in va if k in vb])
    env.iff(_eq_outcome(a, b), exp, 'ElGamal == iff same privacy and same components')


def run_eq_ecc(env, sh):
    """two keys on one curve from independent symbolic private scalars / seeds (public points over the
    abstract group): same secret => equal; equal => same public point; different privacy => not equal"""
    from Crypto.PublicKey import ECC
    if sh['curve'].startswith('P-'):
        order = ECC._curves[sh['curve']].order
        da = env.int('da', sh['bits'])
        db = env.int('db', sh['bits'])
        env.assume(env.And(da >= 1, db >= 1, da < int(order), db < int(order)))
        ka = ECC.construct(curve=sh['curve'], d=da)
        kb = ECC.construct(curve=sh['curve'], d=db)
        same_secret = da == db
    else:
        n = 32 if sh['curve'] == 'Ed25519' else 57
        sa, sb = env.bytes('seed_a', n), env.bytes('seed_b', n)
        ka = ECC.construct(curve=sh['curve'], seed=sa)
        kb = ECC.construct(curve=sh['curve'], seed=sb)
        same_secret = sa == sb
    if not sh['priv_a']:
        ka = ka.public_key()
    if not sh['priv_b']:
        kb = kb.public_key()
    r = _eq_outcome(ka, kb)
    if sh['priv_a'] != sh['priv_b']:
        env.check(env.Not(r), 'ECC keys of different privacy are not equal')
    else:
        env.check(env.implies(same_secret, r), 'same secret => equal')
        pa, pb = ka.pointQ, kb.pointQ
        env.check(env.implies(r, env.And(pa.x == pb.x, pa.y == pb.y)), 'equal => same public point')
    env.check(env.Not(_eq_outcome(ka, 5)), 'a key never equals a non-key')


def run_eq_cross(env, sh):
    a, _ = _mk_rsa(env, 'a', False, 16)
    b, _ = _mk_dsa(env, 'b', False, 16)
    c, _ = _mk_elgamal(env, 'c', False, 16)
    for x, y in ((a, b), (b, a), (a, c), (c, a), (b, c), (c, b)):
        env.check(env.Not(_eq_outcome(x, y)), 'keys of different types are never equal')


HARNESSES = dict(eq_rsa=Harness('eq_rsa', run_eq_rsa), eq_dsa=Harness('eq_dsa', run_eq_dsa),
                 eq_elgamal=Harness('eq_elgamal', run_eq_elgamal), eq_ecc=Harness('eq_ecc', run_eq_ecc),
                 eq_cross=Harness('eq_cross', run_eq_cross))


def shapes(tier):
    th = tier == 'thorough'
    jobs = []
    for h in ('eq_rsa', 'eq_dsa', 'eq_elgamal'):
        for bits in ((8, 16, 64, 521) if th else (16, 64)):
            for pa in (False, True):
                for pb in (False, True):
                    jobs.append((h, dict(bits=bits, priv_a=pa, priv_b=pb)))
    for curve in (('P-192', 'P-256', 'P-521', 'Ed25519', 'Ed448') if th else ('P-256', 'Ed25519')):
        for pa in (False, True):
            for pb in (False, True):
                jobs.append(('eq_ecc', dict(curve=curve, bits=64, priv_a=pa, priv_b=pb)))
    jobs.append(('eq_cross', dict()))
    return jobs


BOUNDS = dict(eq="components: independent symbolic integers of 8..521 bits; every privacy combination",
              outside=["round trips (added incrementally)", "PEM text layer", "openssl as external oracle"])
ASSUMPTIONS = ["an exception raised by == counts as 'not equal'", "EC points over the abstract group of vlib/pysym/ecnat.py"]
EXPLANATION = ("bounded symbolic execution (PYSYM) of the real __eq__/__ne__ methods on key objects built from "
               "independent symbolic components; z3 decides 'equal <=> same privacy and all components equal'")
