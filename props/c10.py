"""C10 -- objects obey their documented call-order state machine for every call sequence.

Bounded model checking over call histories (PYSYM): every sequence of method calls up to depth D over
{update, encrypt, decrypt, digest, verify, encrypt_and_digest, decrypt_and_verify} (+ the OCB final
calls, hash update/digest/read/copy) is executed on the real object with symbolic data.  Oracle: the
life-cycle automaton of Doc/src/cipher/modern.rst (transcribed below) -- a forbidden call must raise
TypeError and leave the object behaving as if it had not been made; every permitted sequence must yield
the ciphertext / plaintext / tag of the one-shot reference computation on the concatenated data.
"""
import itertools

from vlib.env import Harness
from vlib.models import aead as M

LEVEL = "model_checking"
ACTS = ('update', 'encrypt', 'decrypt', 'digest', 'verify', 'encrypt_and_digest', 'decrypt_and_verify')
LENS = (1, 16, 17, 0)

# automaton: state -> action -> next state (absent = forbidden => TypeError, state unchanged)
AUTO = {
    'INIT': dict(update='AAD', encrypt='ENC', decrypt='DEC', digest='DIG', verify='VER', encrypt_and_digest='DIG', decrypt_and_verify='VER'),
    'AAD': dict(update='AAD', encrypt='ENC', decrypt='DEC', digest='DIG', verify='VER', encrypt_and_digest='DIG', decrypt_and_verify='VER'),
    'ENC': dict(encrypt='ENC', digest='DIG', encrypt_and_digest='DIG'),
    'DEC': dict(decrypt='DEC', verify='VER', decrypt_and_verify='VER'),
    'DIG': dict(digest='DIG'),
    'VER': dict(verify='VER'),
}


def _new(mode, key, nonce):
    from Crypto.Cipher import AES, ChaCha20_Poly1305
    if mode == 'gcm':
        return AES.new(key, AES.MODE_GCM, nonce=nonce)
    if mode == 'eax':
        return AES.new(key, AES.MODE_EAX, nonce=nonce)
    if mode == 'ccm':
        return AES.new(key, AES.MODE_CCM, nonce=nonce)
    if mode == 'chacha':
        return ChaCha20_Poly1305.new(key=key, nonce=nonce)
    raise KeyError(mode)


def _ref(P, mode, key, nonce, aad, data, decrypt):
    if mode == 'gcm':
        return M.gcm(P, 'AES', key, nonce, aad, data, decrypt)
    if mode == 'eax':
        return M.eax(P, 'AES', key, nonce, aad, data, decrypt)
    if mode == 'ccm':
        return M.ccm(P, 'AES', key, nonce, aad, data, 16, decrypt)
    return M.chacha20_poly1305(P, key, nonce, aad, data, decrypt)


def run_aead_seq(env, sh):
    P = env.P
    mode, seq = sh['mode'], sh['seq']
    key = env.bytes('key', 32 if mode == 'chacha' else 16)
    nonce = env.bytes('nonce', 12)
    ci = _new(mode, key, nonce)
    state = 'INIT'
    aad_parts, msg_parts = [], []      # what the reference has absorbed so far
    outs = []                          # outputs of the permitted encrypt/decrypt calls
    direction = None
    for i, act in enumerate(seq):
        n = LENS[i % len(LENS)]
        nxt = AUTO[state].get(act)
        # CCM without declared lengths: the message must come in one piece
        if mode == 'ccm' and act in ('encrypt', 'decrypt') and state in ('ENC', 'DEC'):
            nxt = None
        if mode == 'ccm' and act in ('encrypt_and_digest', 'decrypt_and_verify') and state in ('ENC', 'DEC'):
            nxt = None
        data = env.bytes('d%d' % i, n)
        # arguments
        bad = act.endswith('_bad')
        if bad:
            act = act[:-4]
            nxt = AUTO[state].get(act)
            if mode == 'ccm' and act == 'decrypt_and_verify' and state in ('ENC', 'DEC'):
                nxt = None
        if act in ('verify', 'decrypt_and_verify'):
            # offer the tag the specification defines for what has been (will have been) processed
            m_all = msg_parts + ([data] if act == 'decrypt_and_verify' and nxt else [])
            ct_all = P.concat(*m_all) if m_all else P.const(b"")
            a_all = P.concat(*aad_parts) if aad_parts else P.const(b"")
            _, tag = _ref(P, mode, key, nonce, a_all, ct_all, True)
            if bad:
                tag = P.xor(tag, P.const(b"\x01" + bytes(len(tag) - 1)))
        try:
            if act == 'update':
                r = ci.update(data)
            elif act == 'encrypt':
                r = ci.encrypt(data)
            elif act == 'decrypt':
                r = ci.decrypt(data)
            elif act == 'digest':
                r = ci.digest()
            elif act == 'verify':
                r = ci.verify(tag)
            elif act == 'encrypt_and_digest':
                r = ci.encrypt_and_digest(data)
            else:
                r = ci.decrypt_and_verify(data, tag)
            raised = None
        except TypeError:
            raised = 'TypeError'
        except ValueError:
            raised = 'ValueError'
        except Exception as e:              # e.g. an internal AssertionError escaping: never the documented behaviour
            raised = type(e).__name__
        if nxt is None:
            env.check(raised == 'TypeError', 'step %d: %s is forbidden in state %s and raises TypeError' % (i, act, state))
            continue                       # the object must behave as if the call had not been made
        if bad:
            # a wrong tag is refused with ValueError, and the object is then in the 'verify only' state:
            # nothing else may be obtained from it (in particular no digest() and no further plaintext)
            env.check(raised == 'ValueError', 'step %d: %s with a wrong tag raises ValueError' % (i, act))
            state = nxt
            if act == 'decrypt_and_verify':
                msg_parts.append(data)
            continue
        env.check(raised is None, 'step %d: %s is permitted in state %s' % (i, act, state))
        if raised is not None:
            return
        state = nxt
        if act == 'update':
            aad_parts.append(data)
            continue
        a_all = P.concat(*aad_parts) if aad_parts else P.const(b"")
        if act in ('encrypt', 'encrypt_and_digest'):
            direction = 'E'
            msg_parts.append(data)
            full, tagE = _ref(P, mode, key, nonce, a_all, P.concat(*msg_parts), False)
            piece = r[0] if act == 'encrypt_and_digest' else r
            off = sum(len(x) for x in msg_parts[:-1])
            env.check(piece == full[off:off + n], 'step %d: ciphertext piece == one-shot ciphertext at its position' % i)
            if act == 'encrypt_and_digest':
                env.check(r[1] == tagE, 'step %d: tag == one-shot tag' % i)
        elif act in ('decrypt', 'decrypt_and_verify'):
            direction = 'D'
            msg_parts.append(data)
            full, _ = _ref(P, mode, key, nonce, a_all, P.concat(*msg_parts), True)
            off = sum(len(x) for x in msg_parts[:-1])
            env.check(r == full[off:off + n], 'step %d: plaintext piece == one-shot plaintext at its position' % i)
        elif act == 'digest':
            m_all = P.concat(*msg_parts) if msg_parts else P.const(b"")
            _, tagE = _ref(P, mode, key, nonce, a_all, m_all, False)
            env.check(r == tagE, 'step %d: digest() == one-shot tag (idempotent)' % i)


# ---- classic modes and stream ciphers: encrypt/decrypt exclusivity

def run_classic_seq(env, sh):
    from Crypto.Cipher import AES, ChaCha20
    P = env.P
    mode, seq = sh['mode'], sh['seq']
    key = env.bytes('key', 32 if mode == 'chacha20' else 16)
    iv = env.bytes('iv', 12 if mode == 'chacha20' else (8 if mode == 'ctr' else 16))
    if mode == 'cbc':
        ci = AES.new(key, AES.MODE_CBC, iv=iv)
    elif mode == 'cfb':
        ci = AES.new(key, AES.MODE_CFB, iv=iv, segment_size=128)
    elif mode == 'ofb':
        ci = AES.new(key, AES.MODE_OFB, iv=iv)
    elif mode == 'ctr':
        ci = AES.new(key, AES.MODE_CTR, nonce=iv)
    else:
        ci = ChaCha20.new(key=key, nonce=iv)
    direction = None
    parts = []
    for i, act in enumerate(seq):
        n = 16 if mode == 'cbc' else LENS[i % len(LENS)]
        data = env.bytes('d%d' % i, n)
        try:
            r = ci.encrypt(data) if act == 'encrypt' else ci.decrypt(data)
            raised = False
        except TypeError:
            raised = True
        allowed = direction in (None, act)
        if not allowed:
            env.check(raised, 'step %d: %s after the opposite direction raises TypeError' % (i, act))
            continue
        env.check(not raised, 'step %d: %s permitted' % (i, act))
        if raised:
            return
        direction = act
        parts.append(data)
        whole = P.concat(*parts)
        off = sum(len(x) for x in parts[:-1])
        if mode == 'cbc':
            full = M.cbc_enc(P, 'AES', key, iv, whole) if act == 'encrypt' else M.cbc_dec(P, 'AES', key, iv, whole)
        elif mode == 'cfb':
            full = M.cfb_enc(P, 'AES', key, iv, whole, 16) if act == 'encrypt' else M.cfb_dec(P, 'AES', key, iv, whole, 16)
        elif mode == 'ofb':
            full = M.ofb(P, 'AES', key, iv, whole)
        elif mode == 'ctr':
            full = M.ctr(P, 'AES', key, iv, 0, 8, P.const(b""), whole)
        else:
            full = M.chacha_stream(P, key, iv, 0, whole)
        env.check(r == full[off:off + n], 'step %d: output piece == one-shot result at its position' % i)


# ---- OCB: the final no-argument encrypt()/decrypt() is part of the protocol

OCB_ACTS = ('update', 'encrypt', 'encrypt_fin', 'decrypt', 'decrypt_fin', 'digest', 'verify', 'encrypt_and_digest', 'decrypt_and_verify')
_OCB_START = dict(update='AAD', encrypt='ENC', encrypt_fin='ENCFIN', decrypt='DEC', decrypt_fin='DECFIN', digest='DIG', verify='VER',
                  encrypt_and_digest='DIG', decrypt_and_verify='VER')
OCB_AUTO = {
    'INIT': _OCB_START, 'AAD': _OCB_START,
    'ENC': dict(encrypt='ENC', encrypt_fin='ENCFIN', encrypt_and_digest='DIG'),
    'ENCFIN': dict(digest='DIG'),
    'DEC': dict(decrypt='DEC', decrypt_fin='DECFIN', decrypt_and_verify='VER'),
    'DECFIN': dict(verify='VER'),
    'DIG': dict(digest='DIG'), 'VER': dict(verify='VER'),
}


def run_ocb_seq(env, sh):
    from Crypto.Cipher import AES
    P = env.P
    seq = sh['seq']
    key = env.bytes('key', 16)
    nonce = env.bytes('nonce', 12)
    ci = AES.new(key, AES.MODE_OCB, nonce=nonce)
    state = 'INIT'
    aad_parts, msg_parts, outs = [], [], []

    def cat(parts):
        return P.concat(*parts) if parts else P.const(b"")
    for i, act in enumerate(seq):
        bad = act.endswith('_bad')
        if bad:
            act = act[:-4]
        n = LENS[i % len(LENS)]
        nxt = OCB_AUTO[state].get(act)
        data = env.bytes('d%d' % i, n)
        if act in ('verify', 'decrypt_and_verify'):
            m_all = msg_parts + ([data] if act == 'decrypt_and_verify' and nxt else [])
            _, tag = M.ocb(P, 'AES', key, nonce, cat(aad_parts), cat(m_all), 16, True)
            if bad:
                tag = P.xor(tag, P.const(b"\x01" + bytes(15)))
        try:
            if act == 'update':
                r = ci.update(data)
            elif act == 'encrypt':
                r = ci.encrypt(data)
            elif act == 'encrypt_fin':
                r = ci.encrypt()
            elif act == 'decrypt':
                r = ci.decrypt(data)
            elif act == 'decrypt_fin':
                r = ci.decrypt()
            elif act == 'digest':
                r = ci.digest()
            elif act == 'verify':
                r = ci.verify(tag)
            elif act == 'encrypt_and_digest':
                r = ci.encrypt_and_digest(data)
            else:
                r = ci.decrypt_and_verify(data, tag)
            raised = None
        except TypeError:
            raised = 'TypeError'
        except ValueError:
            raised = 'ValueError'
        except Exception as e:              # e.g. an internal AssertionError escaping: never the documented behaviour
            raised = type(e).__name__
        if nxt is None:
            env.check(raised == 'TypeError', 'step %d: %s is forbidden in state %s and raises TypeError' % (i, act, state))
            continue
        if bad:
            env.check(raised == 'ValueError', 'step %d: %s with a wrong tag raises ValueError' % (i, act))
            state = nxt
            if act == 'decrypt_and_verify':
                msg_parts.append(data)
            continue
        env.check(raised is None, 'step %d: %s is permitted in state %s' % (i, act, state))
        if raised is not None:
            return
        state = nxt
        if act == 'update':
            aad_parts.append(data)
            continue
        dec = act.startswith('decrypt')
        if act in ('encrypt', 'decrypt', 'encrypt_and_digest', 'decrypt_and_verify'):
            msg_parts.append(data)
        if act in ('encrypt', 'decrypt', 'encrypt_fin', 'decrypt_fin', 'encrypt_and_digest', 'decrypt_and_verify'):
            piece = r[0] if act == 'encrypt_and_digest' else r
            outs.append(piece)
            full, tagE = M.ocb(P, 'AES', key, nonce, cat(aad_parts), cat(msg_parts), 16, dec)
            got = cat(outs)
            final = act in ('encrypt_fin', 'decrypt_fin', 'encrypt_and_digest', 'decrypt_and_verify')
            if final:
                env.check(len(got) == len(full) and got == full, 'step %d: all output pieces together == one-shot result' % i)
            else:
                total = sum(len(x) for x in msg_parts)
                env.check(len(got) == 16 * (total // 16) and got == full[:len(got)],
                          'step %d: the complete blocks returned so far == the one-shot result at their position' % i)
            if act == 'encrypt_and_digest':
                env.check(r[1] == tagE, 'step %d: tag == one-shot tag' % i)
        elif act == 'digest':
            _, tagE = M.ocb(P, 'AES', key, nonce, cat(aad_parts), cat(msg_parts), 16, False)
            env.check(r == tagE, 'step %d: digest() == one-shot tag (idempotent)' % i)


# ---- CCM with declared lengths: pieces are counted against the declaration

def run_ccm_declared(env, sh):
    from Crypto.Cipher import AES
    P = env.P
    A, Mlen, seq = sh['assoc_len'], sh['msg_len'], sh['seq']
    key = env.bytes('key', 16)
    nonce = env.bytes('nonce', 12)
    ci = AES.new(key, AES.MODE_CCM, nonce=nonce, assoc_len=A, msg_len=Mlen)
    a_done, m_done = 0, 0
    phase = 'A'                     # A: associated data, E / D: message, T: tag obtained / checked
    aad_parts, msg_parts = [], []

    def cat(parts):
        return P.concat(*parts) if parts else P.const(b"")
    for i, (act, n) in enumerate(seq):
        data = env.bytes('d%d' % i, n)
        if act == 'verify':
            _, tag = M.ccm(P, 'AES', key, nonce, cat(aad_parts), cat(msg_parts), 16, True)
        try:
            if act == 'update':
                r = ci.update(data)
            elif act == 'encrypt':
                r = ci.encrypt(data)
            elif act == 'decrypt':
                r = ci.decrypt(data)
            elif act == 'digest':
                r = ci.digest()
            else:
                r = ci.verify(tag)
            raised = None
        except TypeError:
            raised = 'TypeError'
        except ValueError:
            raised = 'ValueError'
        except Exception as e:              # e.g. an internal AssertionError escaping: never the documented behaviour
            raised = type(e).__name__
        # oracle
        if act == 'update':
            if phase != 'A':
                exp = 'TypeError'
            elif a_done + n > A:
                exp = 'ValueError'
            else:
                exp = None
        elif act in ('encrypt', 'decrypt'):
            want = 'E' if act == 'encrypt' else 'D'
            if phase not in ('A', want):
                exp = 'TypeError'
            elif a_done < A:
                exp = 'ValueError'          # associated data too short
            elif m_done + n > Mlen:
                exp = 'ValueError'          # more than declared
            else:
                exp = None
        else:
            want = 'E' if act == 'digest' else 'D'
            tphase = 'TE' if act == 'digest' else 'TD'
            if phase not in ('A', want, tphase):
                exp = 'TypeError'
            elif a_done < A or m_done < Mlen:
                exp = 'ValueError'          # declared data not complete
            else:
                exp = None
        env.check(raised == exp, 'step %d: %s(%d) after %d/%d AAD and %d/%d message bytes %s' %
                  (i, act, n, a_done, A, m_done, Mlen, 'raises ' + exp if exp else 'is accepted'))
        if raised != exp:
            return
        if exp == 'ValueError':
            # a refused call (too much / too little data) must not have consumed anything that a correct
            # continuation depends on: the harness stops the sequence here (behaviour after such errors is
            # not specified by the documentation)
            return
        if exp is not None:
            continue
        if act == 'update':
            a_done += n
            aad_parts.append(data)
        elif act in ('encrypt', 'decrypt'):
            phase = 'E' if act == 'encrypt' else 'D'
            off = m_done
            m_done += n
            msg_parts.append(data)
            if m_done == Mlen:
                full, _ = M.ccm(P, 'AES', key, nonce, cat(aad_parts), cat(msg_parts), 16, act == 'decrypt')
                env.check(r == full[off:off + n], 'step %d: piece == one-shot result at its position' % i)
            else:
                # CTR keystream position only (the reference needs the complete message for B_0): compare with
                # the one-shot result on a padded message of the declared length
                pad = env.P.const(bytes(Mlen - m_done))
                full, _ = M.ccm(P, 'AES', key, nonce, cat(aad_parts), P.concat(*(msg_parts + [pad])), 16, act == 'decrypt')
                env.check(r == full[off:off + n], 'step %d: piece == one-shot result at its position' % i)
        elif act == 'digest':
            phase = 'TE'
            _, tagE = M.ccm(P, 'AES', key, nonce, cat(aad_parts), cat(msg_parts), 16, False)
            env.check(r == tagE, 'step %d: digest() == one-shot tag' % i)
        else:
            phase = 'TD'


# ---- hash / XOF / MAC objects: update after the first output is forbidden where the documentation says so

def _mk_hash(kind, key):
    import importlib
    H = lambda n: importlib.import_module('Crypto.Hash.' + n)
    if kind in ('SHAKE128', 'SHAKE256', 'TurboSHAKE128'):
        return (lambda: H(kind).new()), 'xof', True
    if kind == 'cSHAKE128':
        return (lambda: H(kind).new(custom=b"ab")), 'xof', True
    if kind in ('SHA3_256', 'keccak'):
        return (lambda: H(kind).new(digest_bits=256) if kind == 'keccak' else H(kind).new()), 'hash', True
    if kind in ('BLAKE2b', 'BLAKE2s'):
        return (lambda: H(kind).new(digest_bytes=16)), 'hash', True
    if kind == 'KMAC128':
        return (lambda: H(kind).new(key=key, mac_len=16)), 'mac', True
    if kind == 'TupleHash128':
        return (lambda: H(kind).new(digest_bytes=16)), 'hash', True
    if kind == 'CMAC':
        from Crypto.Cipher import AES
        return (lambda: H('CMAC').new(key, ciphermod=AES)), 'mac', True
    if kind == 'Poly1305':
        from Crypto.Cipher import AES
        return (lambda: H('Poly1305').new(key=key + key, cipher=AES, nonce=bytes(16))), 'mac', True
    if kind == 'HMAC':
        return (lambda: H('HMAC').new(key, digestmod=H('SHA256'))), 'mac', False
    if kind in ('SHA256', 'SHA1', 'SHA512', 'MD5'):
        return (lambda: H(kind).new()), 'hash', False
    raise KeyError(kind)


def run_hash_seq(env, sh):
    P = env.P
    kind, seq = sh['kind'], sh['seq']
    key = env.bytes('key', 16)
    mk, family, frozen_after_output = _mk_hash(kind, key)
    h = mk()
    fed = []
    produced = False
    nread = 0
    for i, act in enumerate(seq):
        n = (3, 17, 0, 16)[i % 4]
        data = env.bytes('d%d' % i, n)
        try:
            if act == 'update':
                r = h.update(data)
            elif family == 'xof':
                r = h.read(n + 1)
            else:
                r = h.digest()
            raised = None
        except TypeError:
            raised = 'TypeError'
        except Exception as e:
            raised = type(e).__name__
        if act == 'update':
            if produced and frozen_after_output:
                env.check(raised == 'TypeError', 'step %d: update() after the first output raises TypeError' % i)
                continue
            env.check(raised is None, 'step %d: update() is permitted' % i)
            fed.append(data)
            continue
        env.check(raised is None, 'step %d: output is permitted' % i)
        produced = True
        ref = mk()
        if fed and kind.startswith('TupleHash'):
            for item in fed:            # a tuple hash is over the sequence of items, not their concatenation
                ref.update(item)
        elif fed:
            ref.update(P.concat(*fed))
        if family == 'xof':
            whole = ref.read(nread + n + 1)
            env.check(r == whole[nread:], 'step %d: read() continues the one-shot output at its position' % i)
            nread += n + 1
        else:
            env.check(r == ref.digest(), 'step %d: digest() == one-shot digest of the data accepted so far (idempotent; a refused update left no trace)' % i)


HARNESSES = dict(aead_seq=Harness('aead_seq', run_aead_seq), classic_seq=Harness('classic_seq', run_classic_seq),
                 ocb_seq=Harness('ocb_seq', run_ocb_seq), ccm_declared=Harness('ccm_declared', run_ccm_declared),
                 hash_seq=Harness('hash_seq', run_hash_seq))


def shapes(tier):
    th = tier == 'thorough'
    jobs = []
    for mode in ('gcm', 'eax', 'ccm', 'chacha'):
        if th:
            depth = 5 if mode == 'gcm' else 4
        else:
            depth = 2 if mode == 'eax' else 3
        for d in range(1, depth + 1):
            for seq in itertools.product(ACTS, repeat=d):
                jobs.append(('aead_seq', dict(mode=mode, seq=list(seq))))
        if not th:
            # one level deeper along the documented happy paths and their typical misuse
            for seq in (('update', 'update', 'encrypt', 'encrypt', 'digest'), ('update', 'encrypt', 'digest', 'digest', 'encrypt'),
                        ('update', 'decrypt', 'decrypt', 'verify', 'verify'), ('encrypt', 'update', 'encrypt', 'digest', 'verify'),
                        ('decrypt', 'digest', 'decrypt', 'verify', 'decrypt'), ('update', 'encrypt_and_digest', 'encrypt', 'digest'),
                        ('decrypt_and_verify', 'verify', 'decrypt', 'update'), ('digest', 'update', 'encrypt', 'digest')):
                jobs.append(('aead_seq', dict(mode=mode, seq=list(seq))))
    # wrong tags: after a refused verify() / decrypt_and_verify() only verify() remains possible
    for mode in ('gcm', 'eax', 'ccm', 'chacha'):
        for pre in ((), ('update',), ('decrypt',), ('update', 'decrypt')):
            for badact in ('verify_bad', 'decrypt_and_verify_bad'):
                for post in [(a,) for a in ACTS] + ([(a, b) for a in ACTS for b in ('digest', 'decrypt', 'verify')] if th else [('verify', 'decrypt'), ('digest', 'digest')]):
                    jobs.append(('aead_seq', dict(mode=mode, seq=list(pre) + [badact] + list(post))))
    # OCB (explicit final calls)
    for d in range(1, (4 if th else 3) + 1):
        for seq in itertools.product(OCB_ACTS, repeat=d):
            if d == 4 and seq[0] not in ('update', 'encrypt', 'decrypt'):
                continue
            jobs.append(('ocb_seq', dict(seq=list(seq))))
    for pre in (('decrypt',), ('decrypt', 'decrypt_fin'), ('update', 'decrypt', 'decrypt_fin')):
        for badact in ('verify_bad', 'decrypt_and_verify_bad'):
            for post in OCB_ACTS:
                jobs.append(('ocb_seq', dict(seq=list(pre) + [badact, post])))
    for seq in (('update', 'update', 'encrypt', 'encrypt', 'encrypt_fin', 'digest'), ('decrypt', 'decrypt', 'decrypt', 'decrypt_fin', 'verify', 'verify'),
                ('update', 'encrypt', 'encrypt', 'encrypt', 'encrypt', 'encrypt_fin'), ('encrypt', 'encrypt', 'encrypt_and_digest', 'digest')):
        jobs.append(('ocb_seq', dict(seq=list(seq))))
    # CCM with declared lengths
    for A, Ml in ((3, 32), (0, 17)) if not th else ((3, 32), (0, 17), (16, 0), (2, 33)):
        acts = [('update', 1), ('update', 2), ('encrypt', 16), ('encrypt', Ml - 16), ('encrypt', 17), ('decrypt', 16), ('decrypt', Ml - 16),
                ('decrypt', 17), ('digest', 0), ('verify', 0)]
        base = sorted(set(a for a in acts if a[1] >= 0))
        if th:
            acts += [('update', 0), ('update', A), ('encrypt', 0), ('encrypt', Ml), ('decrypt', Ml)]
        acts = sorted(set(a for a in acts if a[1] >= 0))
        for d in range(1, 4):
            for seq in itertools.product(acts, repeat=d):
                jobs.append(('ccm_declared', dict(assoc_len=A, msg_len=Ml, seq=[list(x) for x in seq])))
        if th and (A, Ml) in ((3, 32), (0, 17)):
            for seq in itertools.product(base, repeat=4):
                if seq[0][0] in ('digest', 'verify'):
                    continue
                jobs.append(('ccm_declared', dict(assoc_len=A, msg_len=Ml, seq=[list(x) for x in seq])))
    # hash / XOF / MAC objects
    for kind in ('SHAKE128', 'SHAKE256', 'cSHAKE128', 'TurboSHAKE128', 'SHA3_256', 'keccak', 'BLAKE2b', 'BLAKE2s', 'KMAC128', 'TupleHash128', 'CMAC', 'Poly1305', 'HMAC', 'SHA256',
                 'SHA1', 'SHA512', 'MD5'):
        for d in range(1, (5 if th else 4) + 1):
            for seq in itertools.product(('update', 'out'), repeat=d):
                jobs.append(('hash_seq', dict(kind=kind, seq=list(seq))))
    for mode in ('cbc', 'cfb', 'ofb', 'ctr', 'chacha20'):
        for d in range(1, (5 if th else 4)):
            for seq in itertools.product(('encrypt', 'decrypt'), repeat=d):
                jobs.append(('classic_seq', dict(mode=mode, seq=list(seq))))
    return jobs


BOUNDS = dict(depth="AEAD: every call sequence up to depth 3 (quick; GCM 4) / 4 (thorough; GCM 5) over 7 methods; classic modes and ChaCha20: "
              "every encrypt/decrypt sequence up to depth 3 / 4; argument lengths cycle through 1, 16, 17, 0",
              ocb="OCB: every sequence up to depth 3 (thorough 4) over 9 methods incl. the final no-argument encrypt()/decrypt()",
              ccm_declared="CCM with assoc_len/msg_len declared: every sequence up to depth 3 (thorough 4) over 10..15 (method, length) pairs around the declared lengths",
              bad_tags="after a wrong tag: every single follow-up call (thorough: every pair)",
              hash_objects="17 hash / XOF / MAC classes: every update / output sequence up to depth 4 (thorough 5): update after the first output raises TypeError where documented, reads continue the one-shot stream, digests are idempotent",
              outside=["deeper histories (no abstraction-soundness argument is offered)", "SIV", "copy() within the sequences (C19), KangarooTwelve",
                       "behaviour after a ValueError for too much / too little declared CCM data (the sequence stops there)"])
ASSUMPTIONS = ["primitives uninterpreted as in C01", "verify()/decrypt_and_verify() are offered the specification tag for the data processed so far"]
EXPLANATION = ("bounded model checking of call histories: every method sequence up to the depth bound is executed symbolically on the "
               "real object (all data bytes solver variables) against the documented life-cycle automaton and the one-shot reference")


def check(res, tier):
    from vlib import common
    jobs = shapes(tier)
    common.run_pysym_grid(res, __name__, jobs)
    res.states = len(jobs)
    res.transitions = sum(len(s['seq']) for _, s in jobs)
    res.bounds.update(BOUNDS)
    res.assumptions.extend(ASSUMPTIONS)
    vj = jobs[::max(1, len(jobs) // 300)]
    common.validate_concrete(res, __name__, vj)
    return EXPLANATION
