"""C12 -- key-derivation functions return exactly the bytes their specifications define (glue).

PYSYM on the real Protocol/KDF.py (PBKDF1, PBKDF2 generic and HMAC-assist paths, HKDF, SP 800-108 counter
mode, scrypt parameter logic and PBKDF2-ROMix-PBKDF2 plumbing, bcrypt control logic) with the real
HMAC.py underneath and the hash compression / ROMix / EksBlowfish cores uninterpreted; LLSYM on the C
side of the PBKDF2 fast path (*_pbkdf2_hmac_assist) with the compression function uninterpreted.
Oracles: RFC 8018 s5.1/s5.2, RFC 5869, SP 800-108r1 s4.1, RFC 7914 s2/s6 written over the same UFs.
"""
from vlib.env import Harness
from vlib.models import hpke as R

HL = dict(SHA1=20, SHA256=32, SHA512=64)
R.HASH.setdefault('SHA1', (20, 64))


def _hmod(name):
    import importlib
    return importlib.import_module("Crypto.Hash." + name)


def _xor_all(P, xs):
    acc = xs[0]
    for x in xs[1:]:
        acc = P.xor(acc, x)
    return acc


def ref_pbkdf2(P, hname, pw, salt, dklen, count):
    hl = HL[hname]
    out = []
    i = 1
    while sum(len(x) for x in out) < dklen:
        u = R.hmac(P, hname, pw, P.concat(salt, i.to_bytes(4, 'big')))
        us = [u]
        for _ in range(count - 1):
            u = R.hmac(P, hname, pw, u)
            us.append(u)
        out.append(_xor_all(P, us))
        i += 1
    return P.concat(*out)[:dklen]


def run_pbkdf2(env, sh):
    from Crypto.Protocol import KDF
    from Crypto.Hash import HMAC
    P = env.P
    hname = sh['hash']
    pw = env.bytes('password', sh['plen'])
    salt = env.bytes('salt', sh['slen'])
    hmod = _hmod(hname)
    if sh['path'] == 'assist':
        out = KDF.PBKDF2(pw, salt, sh['dklen'], sh['count'], hmac_hash_module=hmod)
    else:
        out = KDF.PBKDF2(pw, salt, sh['dklen'], sh['count'], prf=lambda p, s: HMAC.new(p, s, hmod).digest())
    env.check(len(out) == sh['dklen'], 'exactly dkLen bytes')
    env.check(out == ref_pbkdf2(P, hname, pw, salt, sh['dklen'], sh['count']), 'DK == RFC 8018 s5.2 PBKDF2 (T_1 || T_2 ..., U_1 xor ... xor U_c)')


def run_pbkdf1(env, sh):
    from Crypto.Protocol import KDF
    P = env.P
    pw = env.bytes('password', sh['plen'])
    salt = env.bytes('salt', sh['slen'])
    try:
        out = KDF.PBKDF1(pw, salt, sh['dklen'], sh['count'], _hmod('SHA1'))
    except (ValueError, TypeError):
        env.check(sh['slen'] != 8 or sh['dklen'] > 20, 'refused only for a salt that is not 8 bytes or an output longer than the digest')
        return
    env.check(sh['slen'] == 8 and sh['dklen'] <= 20, 'bad salt length / too long output is refused')
    t = P.hash('SHA1', P.concat(pw, salt), 20)
    for _ in range(sh['count'] - 1):
        t = P.hash('SHA1', t, 20)
    env.check(out == t[:sh['dklen']], 'DK == RFC 8018 s5.1 PBKDF1')


def run_hkdf(env, sh):
    from Crypto.Protocol import KDF
    P = env.P
    hname = sh['hash']
    hl = HL[hname]
    ikm = env.bytes('ikm', sh['ikmlen'])
    salt = env.bytes('salt', sh['slen']) if sh['slen'] is not None else None
    info = env.bytes('info', sh['ilen']) if sh['ilen'] is not None else None
    kl, nk = sh['keylen'], sh['numkeys']
    try:
        out = KDF.HKDF(ikm, kl, salt, _hmod(hname), nk, info)
    except ValueError:
        env.check(kl * nk > 255 * hl, 'refused only above 255*HashLen')
        return
    env.check(kl * nk <= 255 * hl, 'more than 255*HashLen bytes is refused')
    prk = R.hkdf_extract(P, hname, salt if salt is not None else P.const(b""), ikm)
    okm = R.hkdf_expand(P, hname, prk, info if info is not None else P.const(b""), kl * nk)
    if nk == 1:
        env.check(out == okm, 'OKM == RFC 5869 HKDF-Expand(HKDF-Extract(salt, IKM), info, L)')
    else:
        env.check(len(out) == nk, 'num_keys keys')
        for i, k in enumerate(out):
            env.check(k == okm[i * kl:(i + 1) * kl], 'key %d is the %d-th consecutive slice of the single stream' % (i, i))


def run_sp800_108(env, sh):
    from Crypto.Protocol import KDF
    from Crypto.Hash import HMAC
    P = env.P
    hmod = _hmod('SHA256')
    master = env.bytes('master', 16)
    label = env.bytes('label', sh['llen'])
    context = env.bytes('context', sh['clen'])
    kl, nk = sh['keylen'], sh['numkeys']
    prf = lambda k, d: HMAC.new(k, d, hmod).digest()
    try:
        out = KDF.SP800_108_Counter(master, kl, prf, nk, label, context)
    except ValueError:
        env.check(env.Or(*[context[i] == 0 for i in range(len(context))]) if len(context) else False, 'refused only when the context contains a zero byte')
        return
    env.check(env.Not(env.Or(*[context[i] == 0 for i in range(len(context))])) if len(context) else True, 'a zero byte in the context is refused')
    total = kl * (nk or 1)
    blocks = []
    i = 1
    while 32 * len(blocks) < total:
        blocks.append(R.hmac(P, 'SHA256', master, P.concat(i.to_bytes(4, 'big'), label, b"\x00", context, (8 * total).to_bytes(4, 'big'))))
        i += 1
    stream = P.concat(*blocks)[:total]
    if (nk or 1) == 1:
        env.check(out == stream, 'K(i) = PRF(K_in, [i]_32 || Label || 00 || Context || [L]_32), concatenated and truncated (SP 800-108r1 s4.1)')
    else:
        for j, k in enumerate(out):
            env.check(k == stream[j * kl:(j + 1) * kl], 'key %d is a consecutive slice' % j)


def run_scrypt_params(env, sh):
    from Crypto.Protocol import KDF
    N = env.int('N', sh['nbits'])
    r, p = sh['r'], sh['p']
    pw, salt = b"pw", b"salt"
    try:
        KDF.scrypt(pw, salt, 16, N, r, p)
        ok = True
    except ValueError:
        ok = False
    except ZeroDivisionError:
        env.check(False, 'scrypt raises only ValueError for bad parameters')
        return
    pow2 = env.Or(*[N == (1 << k) for k in range(0, sh['nbits'])])
    good = env.And(pow2, N < (1 << 32), p <= ((1 << 32) - 1) * 32 // (128 * r))
    env.iff(ok, good, 'scrypt refuses exactly: N not a power of two, N >= 2^32, p > (2^32-1)*32/(128 r)  (RFC 7914 s2)')


def run_scrypt_flow(env, sh):
    from Crypto.Protocol import KDF
    P = env.P
    pw = env.bytes('password', 3)
    salt = env.bytes('salt', 4)
    N, r, p, kl, nk = sh['N'], sh['r'], sh['p'], sh['keylen'], sh['numkeys']
    out = KDF.scrypt(pw, salt, kl, N, r, p, nk)
    b = ref_pbkdf2(P, 'SHA256', pw, salt, p * 128 * r, 1)
    mixed = [P.uf("SCRYPT_ROMIX_N%d" % N, [b[i * 128 * r:(i + 1) * 128 * r]], 128 * r) for i in range(p)]
    dk = ref_pbkdf2(P, 'SHA256', pw, P.concat(*mixed), kl * nk, 1)
    if nk == 1:
        env.check(out == dk, 'DK == PBKDF2(P, ROMix blocks, 1, dkLen) over B = PBKDF2(P, S, 1, p*128*r)  (RFC 7914 s6)')
    else:
        for j, k in enumerate(out):
            env.check(k == dk[j * kl:(j + 1) * kl], 'key %d is a consecutive slice' % j)


def run_bcrypt(env, sh):
    """control logic with the EksBlowfish hash replaced by a recording stub"""
    from Crypto.Protocol import KDF
    P = env.P
    pw = env.bytes('password', sh['plen'])
    calls = []
    fixed = bytes(range(1, 25))

    def stub(password, cost, salt, constant, invert):
        calls.append((password, cost, salt, constant, invert))
        if len(password) > 72:
            raise ValueError("too long")
        if not 4 <= cost <= 31:
            raise ValueError("cost")
        return fixed
    real = KDF._bcrypt_hash
    KDF._bcrypt_hash = stub
    try:
        salt = bytes(range(16)) if sh.get('slen', 16) == 16 else bytes(sh['slen'])
        has_nul = env.Or(*[pw[i] == 0 for i in range(len(pw))]) if len(pw) else False
        try:
            out = KDF.bcrypt(pw, sh['cost'], salt)
            ok = True
        except ValueError:
            ok = False
        good = env.And(env.Not(has_nul), len(pw) <= 72, 4 <= sh['cost'] <= 31, len(salt) == 16)
        env.iff(ok, good, 'bcrypt refuses exactly: NUL in the password, more than 72 bytes, cost outside 4..31, salt not 16 bytes')
        if ok:
            hp, cost, hs, const, inv = calls[0]
            exp_pw = P.concat(pw, b"\x00") if len(pw) < 72 else pw
            env.check(hp == exp_pw, 'the password is NUL-terminated unless it is already 72 bytes')
            env.check(cost == sh['cost'] and hs == salt and const == b"OrpheanBeholderScryDoubt" and inv is True, 'cost, salt and constant handed over unchanged')
            env.check(len(out) == 60 and out[:7] == b"$2a$%02d$" % sh['cost'], '60-byte hash with the $2a$cost$ prefix')
            # accept exactly the matching hash
            try:
                KDF.bcrypt_check(pw, out)
            except ValueError:
                env.check(False, 'bcrypt_check accepts the hash just produced')
            # ... and nothing else: any other 60-byte string that differs in one character (prefix, cost, salt -- also in
            # the unused low bits of the last salt character -- or digest) is refused
            if not env.sym or isinstance(out, bytes):
                outb = bytes(out)
                alphabet = b"./ABCDEFGHIJKLMNOPQRSTUVWXYZabcdefghijklmnopqrstuvwxyz0123456789"
                # (positions whose change alters the *decoded* cost or salt are not used: the EksBlowfish core is a stub that
                #  ignores them, so such a string would be the genuine hash of the altered parameters)
                for pos in (28, 29, 40, 59):
                    ch = outb[pos]
                    for alt in (alphabet[(alphabet.index(ch) + 1) % 64], alphabet[alphabet.index(ch) ^ 1], alphabet[alphabet.index(ch) ^ 8]) if pos != 28 else (alphabet[alphabet.index(ch) ^ 1], alphabet[alphabet.index(ch) ^ 8], alphabet[alphabet.index(ch) ^ 4]):
                        if alt == ch:
                            continue
                        forged = outb[:pos] + bytes([alt]) + outb[pos + 1:]
                        try:
                            KDF.bcrypt_check(pw, forged)
                            env.check(False, 'bcrypt_check refuses a hash string that differs from the genuine one at character %d' % pos)
                        except ValueError:
                            env.check(True, 'forged hash refused')
    finally:
        KDF._bcrypt_hash = real


def run_pbkdf2_assist(env, sh):
    """C side of the PBKDF2 fast path: result == U_1 xor ... xor U_c with U_{i+1} = H(opad-block || H(ipad-block || U_i)),
    compression uninterpreted; inner/outer states untouched"""
    from props import c03
    from vlib.llsym import kern
    P = env.P
    cfg = c03.MD[sh['algo']]
    K = kern.kernel(env, cfg['cfile'])
    if env.sym:
        sname = c03._struct_name(K)
        offs = {k: K.field_off(sname, i) for k, i in cfg['fields'].items()}
        K.m.stubs[cfg['compress']] = c03._compress_stub(cfg, offs)
    pfx, B, dig = cfg['pfx'], cfg['B'], cfg['dig']
    ia = [cfg['init_arg']] if cfg['init_arg'] is not None else []
    states = []
    pads = []
    for nm in ('inner', 'outer'):
        slot = K.ptr_slot()
        env.check(K.call(pfx + '_init', slot, *ia) == 0, 'init')
        st = K.deref(slot)
        pad = env.bytes(nm + '_pad', B)
        env.check(K.call(pfx + '_update', st, K.buf(pad, False, nm + '_pad'), B) == 0, 'absorb the padded key block')
        states.append(st)
        pads.append(pad)
    if env.sym:
        hb = cfg['W'] * cfg['NW']
        # initial chaining value: read from a fresh state
        slot0 = K.ptr_slot()
        K.call(pfx + '_init', slot0, *ia)
        h0 = K.read(K.deref(slot0), hb, offs['h'])
    first = env.bytes('first', dig)
    out = K.out(dig, 'result')
    it = sh['iterations']
    K.reset_written()
    r = K.call(pfx + '_pbkdf2_hmac_assist', states[0], states[1], K.buf(first, False, 'first'), out, it, *( [dig] if cfg['digest_arg'] else []))
    if it == 0:
        env.check(r != 0, 'zero iterations refused')
        return
    env.check(r == 0, 'assist succeeds')
    K.check_memory_safe()
    K.check_frame(('result',), 'only the result buffer is written (inner/outer states untouched)')
    got = K.read(out, dig)
    if env.sym:
        u = first
        acc = first
        for _ in range(1, it):
            t = c03._ref_digest(env, cfg, h0, P.concat(pads[0], u))
            u = c03._ref_digest(env, cfg, h0, P.concat(pads[1], t))
            acc = P.xor(acc, u)
        env.check(got == acc, 'result == xor of the HMAC chain U_1..U_c (RFC 8018 s5.2 inner loop)')
    else:
        import hashlib
        hn = cfg['hashlib']
        u = bytes(first)
        acc = u
        for _ in range(1, it):
            t = hashlib.new(hn, bytes(pads[0]) + u).digest()
            u = hashlib.new(hn, bytes(pads[1]) + t).digest()
            acc = bytes(a ^ b for a, b in zip(acc, u))
        env.check(got == acc, 'result == xor of the HMAC chain U_1..U_c')


def run_scrypt_romix_c(env, sh):
    """the real scryptROMix / scryptBlockMix of src/scrypt.c (LLSYM) with the Salsa20/8 core an uninterpreted function,
    all 128 r input bytes symbolic: result == RFC 7914 s4-5 (block shuffling Y0,Y2,..,Y1,Y3,.., V table, Integerify)"""
    from vlib.llsym import kern
    P = env.P
    r, N = sh['r'], sh['N']
    # `static` / `inline` compiled away so that scryptBlockMix is callable in the gcc-built replay library too
    K = kern.kernel(env, 'scrypt.c', extra_macros=('static=', 'inline='))
    n = 128 * r
    data = env.bytes('B', n)

    def core(ins):
        x, y = ins[0], ins[1]
        if env.sym:
            from vlib.pysym import core as pc
            x, y = pc.SymBytes(x), pc.SymBytes(y)
        else:
            x, y = bytes(x), bytes(y)
        return 0, {2: P.uf("SALSA20_8_CORE", [x, y], 64)}
    cb = K.callback('salsa20_8_core_stub', core, [(0, 64, False), (1, 64, False), (2, 64, True)])
    def salsa(x, y):
        return P.uf("SALSA20_8_CORE", [x, y], 64)

    def blockmix(B):
        blocks = [B[64 * i:64 * i + 64] for i in range(2 * r)]
        X = blocks[-1]
        Y = []
        for b in blocks:
            X = salsa(X, b)          # Salsa20/8(X xor B_i)
            Y.append(X)
        return P.concat(*([Y[i] for i in range(0, 2 * r, 2)] + [Y[i] for i in range(1, 2 * r, 2)]))
    if sh.get('blockmix'):
        p_out = K.out(n, 'out')
        K.call('scryptBlockMix', K.buf(data, False, 'in'), p_out, 2 * r, cb)
        K.check_memory_safe()
        env.check(K.read(p_out, n) == blockmix(data), 'scryptBlockMix == RFC 7914 s4 (Y_0, Y_2, .., Y_1, Y_3, ..) for r = %d' % r)
        return
    aliased = sh.get('inplace', False)
    if aliased:
        p_in = K.buf(data, True, 'inout')
        p_out = p_in
    else:
        p_in = K.buf(data, False, 'in')
        p_out = K.out(n, 'out')
    rr = K.call('scryptROMix', p_in, p_out, n, N, cb)
    env.check(rr == 0, 'scryptROMix succeeds')
    K.check_memory_safe()
    env.check(K.live_heap() == [], 'the V table is released')
    X = data
    V = []
    for _ in range(N):
        V.append(X)
        X = blockmix(X)
    for _ in range(N):
        j = P.b2i(X[64 * (2 * r - 1):64 * (2 * r - 1) + 4], 'little') & (N - 1)
        sel = V[N - 1]
        for k in range(N - 2, -1, -1):
            sel = env.ite_bytes(j == k, V[k], sel)
        X = blockmix(P.xor(X, sel))
    env.check(K.read(p_out, n) == X, 'scryptROMix(B, N) == RFC 7914 ROMix with BlockMix shuffling for r = %d' % r)


HARNESSES = dict(scrypt_romix_c=Harness('scrypt_romix_c', run_scrypt_romix_c), pbkdf2_assist=Harness('pbkdf2_assist', run_pbkdf2_assist), pbkdf2=Harness('pbkdf2', run_pbkdf2), pbkdf1=Harness('pbkdf1', run_pbkdf1), hkdf=Harness('hkdf', run_hkdf),
                 sp800_108=Harness('sp800_108', run_sp800_108), scrypt_params=Harness('scrypt_params', run_scrypt_params, max_paths=20000),
                 scrypt_flow=Harness('scrypt_flow', run_scrypt_flow), bcrypt=Harness('bcrypt', run_bcrypt, max_paths=20000))


def shapes(tier):
    th = tier == 'thorough'
    jobs = []
    for hname in (('SHA1', 'SHA256', 'SHA512') if th else ('SHA1', 'SHA256')):
        hl = HL[hname]
        bl = 64 if hname != 'SHA512' else 128
        for path in ('assist', 'generic'):
            for dk in ((1, hl - 1, hl, hl + 1, 2 * hl, 3 * hl + 1) if th else (1, hl, hl + 1, 2 * hl + 1)):
                for count in ((1, 2, 3) if th else (1, 3)):
                    jobs.append(('pbkdf2', dict(hash=hname, path=path, dklen=dk, count=count, plen=3, slen=5)))
            for plen in ((0, 1, bl - 1, bl, bl + 1) if th else (0, bl, bl + 1)):
                jobs.append(('pbkdf2', dict(hash=hname, path=path, dklen=hl + 1, count=2, plen=plen, slen=0 if plen == 0 else 8)))
    for algo in (('SHA256', 'SHA1', 'SHA512', 'SHA224', 'SHA384', 'SHA512_224', 'SHA512_256', 'MD5') if th else ('SHA256', 'SHA1', 'SHA512', 'SHA224', 'SHA384')):
        for it in (0, 1, 2, 3) if th or algo in ('SHA256', 'SHA1', 'SHA512') else (2,):
            jobs.append(('pbkdf2_assist', dict(algo=algo, iterations=it)))
    # src/scrypt.c with the Salsa20/8 core uninterpreted
    for r in (1, 2, 3, 4, 5, 6, 7, 8) if th else (1, 2, 3, 5):
        jobs.append(('scrypt_romix_c', dict(r=r, N=1, blockmix=True)))
    for r, N, inplace in ((1, 1, False), (3, 1, False), (2, 1, True), (1, 2, False), (1, 2, True)) + (((5, 1, True), (6, 1, False)) if th else ()):
        jobs.append(('scrypt_romix_c', dict(r=r, N=N, inplace=inplace)))
    for slen, dk, count in ((8, 20, 1), (8, 1, 3), (8, 16, 2), (7, 16, 2), (9, 16, 2), (8, 21, 1)):
        jobs.append(('pbkdf1', dict(plen=4, slen=slen, dklen=dk, count=count)))
    for hname in ('SHA256', 'SHA512') if th else ('SHA256',):
        hl = HL[hname]
        for kl, nk in ((1, 1), (hl, 1), (hl + 1, 1), (16, 3), (hl, 2), (7, 3)):
            for slen, ilen in ((None, None), (0, 0), (5, 3), (hl + 70, 1)) if th else ((None, None), (5, 3)):
                jobs.append(('hkdf', dict(hash=hname, ikmlen=6, slen=slen, ilen=ilen, keylen=kl, numkeys=nk)))
        jobs.append(('hkdf', dict(hash=hname, ikmlen=6, slen=4, ilen=2, keylen=255 * hl + 1, numkeys=1)))
        jobs.append(('hkdf', dict(hash=hname, ikmlen=6, slen=4, ilen=2, keylen=255 * hl, numkeys=1)))
        jobs.append(('hkdf', dict(hash=hname, ikmlen=6, slen=4, ilen=2, keylen=hl, numkeys=255)))
        jobs.append(('hkdf', dict(hash=hname, ikmlen=6, slen=4, ilen=2, keylen=hl, numkeys=256)))
    for kl, nk in ((16, None), (32, 1), (33, 1), (16, 3), (40, 2)):
        for ll, cl in ((0, 0), (3, 0), (0, 2), (4, 3)):
            jobs.append(('sp800_108', dict(keylen=kl, numkeys=nk, llen=ll, clen=cl)))
    for nbits in ((4, 8, 12) if th else (4, 8)):
        jobs.append(('scrypt_params', dict(nbits=nbits, r=1, p=1)))
    jobs.append(('scrypt_params', dict(nbits=4, r=8, p=(2 ** 32 - 1) * 32 // (128 * 8) + 1)))
    for N, r, p, kl, nk in ((2, 1, 1, 16, 1), (4, 1, 2, 33, 1), (2, 2, 1, 8, 3)):
        jobs.append(('scrypt_flow', dict(N=N, r=r, p=p, keylen=kl, numkeys=nk)))
    for plen in ((0, 1, 3, 71, 72, 73) if th else (1, 3, 72, 73)):
        jobs.append(('bcrypt', dict(plen=plen, cost=5)))
    for cost in (3, 4, 31, 32):
        jobs.append(('bcrypt', dict(plen=2, cost=cost)))
    jobs.append(('bcrypt', dict(plen=2, cost=6, slen=15)))
    return jobs


BOUNDS = dict(pbkdf2="HMAC-SHA1/SHA256 (thorough SHA512), both code paths, dkLen 1..3 PRF blocks+1, count 1..3, password lengths 0/bs-1/bs/bs+1",
              hkdf="key_len x num_keys up to the 255*HashLen limit, optional salt/context", sp800_108="HMAC-SHA256 PRF, label/context <= 4 bytes, 1..3 keys",
              scrypt="N symbolic (<= 12 bits) for the parameter rules; N<=4, r<=2, p<=2 for the plumbing", bcrypt="password 0..73 bytes symbolic, cost 3..32",
              outside=["scryptROMix / Salsa20-8 and EksBlowfish values (uninterpreted / stubbed)", "_bcrypt_encode/_bcrypt_decode on symbolic text", "real iteration counts",
                       "hash compression functions"])
ASSUMPTIONS = ["hashes are whole-message uninterpreted functions; HMAC.py is the real code", "the native *_pbkdf2_hmac_assist is the contract model of vlib/pysym/natives.py (U_1=first; U_{i+1}=H(outer||H(inner||U_i)); xor)"]
EXPLANATION = ("bounded symbolic execution (PYSYM) of the real KDF glue with passwords/salts/labels symbolic; z3 decides equality with RFC 8018 / RFC 5869 / "
               "SP 800-108r1 / RFC 7914 reference algorithms over the same uninterpreted hash, and the exact refusal predicates")
