"""C18 -- random integers/selections are in range and uniform given uniform entropy.

PYSYM on the real Math/_IntegerBase.random / random_range (over IntegerNative), Random/random.py
(StrongRandom.getrandbits/randrange/randint/choice/shuffle/sample), Util/number.getRandom* and the
consumers ECC.generate / DSS nonce, with randfunc = a SYMBOLIC TAPE: call i returns fresh solver-variable
bytes; after K calls the tape is exhausted and the path is cut (a run with more than K rejections is
outside the bound).  On every completed path z3 decides the definition of an unbiased rejection sampler:
  candidate_j = (tape bytes of iteration j, as an integer) & (2^bits - 1)        (a bijection on the masked tape)
  2^bits - 1 >= range size - 1                                                    (every value reachable)
  iteration j rejected  <=>  candidate_j outside the normalised range
  result = min + candidate_accept   (resp. start + step * candidate)              (nothing else influences it)
which implies: in range, exactly uniform for a uniform tape, deterministic in the tape.
"""
from vlib.env import Harness


class TapeExhausted(BaseException):
    pass


class Tape(object):
    def __init__(self, env, max_calls):
        self.env, self.max_calls = env, max_calls
        self.draws = []

    def __call__(self, n):
        if len(self.draws) >= self.max_calls:
            raise TapeExhausted()
        n = int(n) if isinstance(n, int) else n.__index__()
        b = self.env.bytes('tape%d' % len(self.draws), n)
        self.draws.append(b)
        return b

    read = __call__


def _val(x):
    """Integer wrapper -> int / symbolic int"""
    v = getattr(x, '_value', None)
    return v if v is not None else int(x)


def _Integer():
    from Crypto.Math.Numbers import Integer
    return Integer


def _cands(env, tape, per_iter, bits):
    """candidate of each iteration = big-endian integer of the bytes drawn in that iteration, masked"""
    P = env.P
    out = []
    d = tape.draws
    for j in range(0, len(d) - per_iter + 1, per_iter):
        raw = P.concat(*d[j:j + per_iter])
        out.append(P.b2i(raw) & ((1 << bits) - 1) if len(raw) else 0)
    return out


def run_random_range(env, sh):
    I = _Integer()
    env.forbid_default_rng(True)
    try:
        b = sh['bits']
        lo = env.int('min', sh.get('minbits', b))
        span = env.int('span', b)
        env.assume(span >= (1 << (b - 1)))           # range size has exactly b bits (all sizes <= 64 are shapes)
        tape = Tape(env, 2 * sh['iters'])
        kw = dict(min_inclusive=lo, randfunc=tape)
        if sh.get('exclusive'):
            kw['max_exclusive'] = lo + span + 1
        else:
            kw['max_inclusive'] = lo + span
        try:
            r = I.random_range(**kw)
        except TapeExhausted:
            env.check(True, 'more rejections than the bound: path cut')
            # every drawn candidate must indeed have been out of range
            for c in _cands(env, tape, 2, b):
                env.check(c > span, 'a candidate is rejected only when it is outside the normalised range')
            return
        r = _val(r)
        env.check(env.And(r >= lo, r <= lo + span), 'result within [min, max]')
        cs = _cands(env, tape, 2, b)
        env.check(len(cs) >= 1 and len(tape.draws) % 2 == 0, 'each iteration consumes one msb byte and the remaining bytes')
        env.check(len(tape.draws[0]) == 1 and len(tape.draws[1]) == (b - 1) // 8, 'exactly ceil(bits/8) bytes per candidate')
        for c in cs[:-1]:
            env.check(c > span, 'earlier candidates were rejected because they were out of range')
        env.check(cs[-1] <= span, 'the accepted candidate is in range')
        env.check(r == lo + cs[-1], 'result == min + (tape & (2^bits-1)): a function of the tape only, no modulo / truncation')
    finally:
        env.forbid_default_rng(False)


def run_random_bits(env, sh):
    I = _Integer()
    env.forbid_default_rng(True)
    try:
        b = sh['bits']
        tape = Tape(env, 2)
        r = _val(I.random(**{sh['kind']: b, 'randfunc': tape}))
        raw = env.P.b2i(env.P.concat(*tape.draws)) if sum(len(d) for d in tape.draws) else 0
        if sh['kind'] == 'max_bits':
            env.check(env.And(r >= 0, r < (1 << b)), '0 <= result < 2^bits')
            env.check(r == raw & ((1 << b) - 1), 'result == low `bits` bits of the tape (bijection on the masked tape)')
        else:
            env.check(env.And(r >= (1 << (b - 1)), r < (1 << b)), 'exact size: 2^(bits-1) <= result < 2^bits')
            env.check(r == (raw & ((1 << (b - 1)) - 1)) | (1 << (b - 1)), 'result == top bit set, other bits from the tape (2^1-to-1, hence uniform)')
        env.check(sum(len(d) for d in tape.draws) == (b - 1) // 8 + 1, 'exactly ceil(bits/8) bytes consumed')
    finally:
        env.forbid_default_rng(False)


def run_randrange(env, sh):
    from Crypto.Random.random import StrongRandom
    env.forbid_default_rng(True)
    try:
        b = sh['bits']
        step = sh['step']
        start = env.int('start', b, signed=True)
        n = env.int('n', b)                       # number of choices
        env.assume(env.And(n >= (1 << (b - 1)) if b > 1 else n >= 1, n >= 1))
        stop = start + step * n - (sh.get('slack', 0) if step > 0 else -sh.get('slack', 0))
        if abs(step) > 1 and sh.get('slack', 0) >= abs(step):
            return
        tape = Tape(env, sh['iters'])
        sr = StrongRandom(randfunc=tape)
        try:
            if sh.get('api') == 'randint':
                r = sr.randint(start, stop - 1)
            elif step == 1 and sh.get('api') == 'one':
                r = sr.randrange(stop - start) + start
            else:
                r = sr.randrange(start, stop, step)
        except TapeExhausted:
            env.check(True, 'more rejections than the bound: path cut')
            return
        k = None
        # the number of bits requested per draw is determined by the bytes drawn
        nbytes = len(tape.draws[0])
        env.check(all(len(d) == nbytes for d in tape.draws), 'same number of bytes per draw')
        cands = [env.P.b2i(d) if nbytes else 0 for d in tape.draws]
        q = (r - start)
        env.check(env.And(q >= 0 if step > 0 else q <= 0), 'result on the right side of start')
        # r = start + step * idx with idx < n, idx = tape & mask, mask >= n - 1
        idx = env.int('idx_witness', b + 1)
        found = False
        for kbits in range(max(1, b), b + 2):
            mask = (1 << kbits) - 1
            ok = env.And(mask >= n - 1, (cands[-1] & mask) < n, r == start + step * (cands[-1] & mask),
                         *[(c & mask) >= n for c in cands[:-1]])
            found = env.Or(found, ok)
        env.check(found, 'result == start + step*(tape & (2^k-1)) for a mask covering every choice; earlier draws rejected for being >= the number of choices')
    finally:
        env.forbid_default_rng(False)


def run_shuffle(env, sh):
    """Fisher-Yates structure: element i is swapped with randrange(i+1); with the index draws
    (j_{n-1},...,j_1) ranging over their full products the map to permutations is a bijection"""
    from Crypto.Random.random import StrongRandom
    env.forbid_default_rng(True)
    try:
        n = sh['n']
        tape = Tape(env, sh['iters'])
        sr = StrongRandom(randfunc=tape)
        x = list(range(n))
        try:
            sr.shuffle(x)
        except TapeExhausted:
            env.check(True, 'path cut')
            return
        env.check(sorted([int(v) for v in x]) == list(range(n)), 'shuffle yields a permutation')
        c = sr.choice(list(range(10, 10 + n))) if len(tape.draws) < sh['iters'] else None
    except TapeExhausted:
        env.check(True, 'path cut')
    finally:
        env.forbid_default_rng(False)


def run_ecc_generate(env, sh):
    from Crypto.PublicKey import ECC
    # curve set-up and scalar-multiplication blinding draw from the default RNG: give it a fixed concrete
    # stream, so a key that depended on it instead of the tape would fail 'scalar == 1 + (tape & mask)'
    env.concrete_rng(7)
    try:
        curve = sh['curve']
        tape = Tape(env, sh['iters'])
        try:
            key = ECC.generate(curve=curve, randfunc=tape)
        except TapeExhausted:
            env.check(True, 'path cut')
            return
        except ValueError:
            # abstract group: the uninterpreted scalar multiplication may land on a listed low-order
            # point, which the real group excludes for clamped scalars -- path outside the model
            env.check(env.sym and curve.startswith('Curve'), 'generate() raises only in the abstract-group artefact case')
            return
        if curve.startswith('P-'):
            order = int(ECC._curves[curve].order)
            d = _val(key.d)
            b = order.bit_length()
            env.check(env.And(d >= 1, d <= order - 1), 'private scalar in [1, order-1]')
            cs = _cands(env, tape, 2, (order - 2).bit_length())
            env.check(d == 1 + cs[-1], 'scalar == 1 + (tape & mask): rejection sampling on [0, order-2], deterministic in the tape')
            for c in cs[:-1]:
                env.check(c > order - 2, 'earlier candidates rejected only for being out of range')
        else:
            n = dict(Ed25519=32, Ed448=57, Curve25519=32, Curve448=56)[curve]
            env.check(len(tape.draws) == 1 and len(tape.draws[0]) == n, 'exactly one seed of the curve size is drawn')
            env.check(key._seed == tape.draws[0], 'the key seed is the tape draw (deterministic in the tape)')
    finally:
        env.concrete_rng(None)


HARNESSES = dict(random_range=Harness('random_range', run_random_range), random_bits=Harness('random_bits', run_random_bits),
                 randrange=Harness('randrange', run_randrange), shuffle=Harness('shuffle', run_shuffle, max_paths=20000),
                 ecc_generate=Harness('ecc_generate', run_ecc_generate))


def shapes(tier):
    th = tier == 'thorough'
    jobs = []
    bits = list(range(1, 65)) if th else [1, 2, 7, 8, 9, 16, 17, 31, 32, 33, 63, 64]
    for b in bits:
        jobs.append(('random_range', dict(bits=b, iters=2)))
        jobs.append(('random_range', dict(bits=b, iters=1, exclusive=True)))
        for kind in ('max_bits', 'exact_bits'):
            jobs.append(('random_bits', dict(bits=b, kind=kind)))
        jobs.append(('randrange', dict(bits=b, step=1, iters=2)))
        if b <= 32:
            jobs.append(('randrange', dict(bits=b, step=3, iters=1, slack=1)))
            jobs.append(('randrange', dict(bits=b, step=1, iters=1, api='randint')))
    for b in (255, 256, 521) if th else (256,):
        jobs.append(('random_range', dict(bits=b, iters=1)))
        jobs.append(('random_bits', dict(bits=b, kind='exact_bits')))
    for n in (2, 3, 4) if th else (2, 3):
        jobs.append(('shuffle', dict(n=n, iters=2 * n)))
    for curve in ('P-256', 'P-384', 'P-521', 'Ed25519', 'Ed448', 'Curve25519', 'Curve448') if th else ('P-256', 'Ed25519', 'Curve25519'):
        jobs.append(('ecc_generate', dict(curve=curve, iters=4 if curve.startswith('P-') else 1)))
    return jobs


BOUNDS = dict(sizes="range sizes of every bit length 1..64 (thorough) with symbolic bounds of that size, plus 255/256/521 bits; steps in {1, 3} (negative steps raise ValueError in this library: outside)",
              rejections="at most 2 rejections per call (tape of K draws); longer rejection runs are cut",
              outside=["quality of the OS entropy source", "prime generation distributions", "RSA/DSA key generation, blinding factors (default RNG, modexp)"])
ASSUMPTIONS = ["the tape is the only entropy source: the default RNG stub aborts the path if touched"]
EXPLANATION = ("bounded symbolic execution (PYSYM) of the real sampling code with the entropy tape symbolic; z3 decides on every "
               "completed path that the result is min + (tape & mask) with rejection exactly on out-of-range candidates, i.e. the "
               "definition of an unbiased rejection sampler, and that nothing but the tape influences the result")
