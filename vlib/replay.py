"""Replay a solver counterexample (or run random validation) on the REAL library.
Run with /venv/bin/python (no z3 needed).

  python -m vlib.replay <file.json>        exit 1 = violation reproduces, 0 = does not, 3 = error
  python -m vlib.replay --validate -       spec on stdin; prints one JSON line
"""
import importlib
import json
import os
import random
import sys
import traceback

REPO_LIB = os.environ.get("VERIF_REPO_LIB", "/repo/lib")
if REPO_LIB not in sys.path:
    sys.path.insert(0, REPO_LIB)

from vlib.env import ConcEnv, ConcreteViolation, Skip   # noqa: E402


def _load(modname, hname):
    mod = importlib.import_module(modname)
    return mod.HARNESSES[hname]


def replay_file(path):
    with open(path) as f:
        body = json.load(f)
    eng = body.get("engine", "pysym")
    if eng in ("pysym", "concrete"):
        modname = body.get("module") or ("props.%s" % body["property"].lower())
        h = _load(modname, body["harness"])
        env = ConcEnv(body["inputs"])
        try:
            h.run(env, body["shape"])
        except ConcreteViolation as v:
            print("REPRODUCED: %s (label %s)" % (body["harness"], v.label))
            return 1
        except Skip as s:
            print("SKIP: %s" % s)
            return 0
        print("not reproduced (%d concrete checks passed)" % env.checks)
        return 0
    if eng == "llsym":
        from vlib.llsym import creplay
        return creplay.replay(body)
    if eng == "crosshair":
        from vlib import chrun
        return chrun.replay(body)
    print("unknown engine %r" % eng)
    return 3


def validate(spec):
    ok = 0
    failed = []
    rng = random.Random(spec.get("seed", 0))
    for hname, shape in spec["jobs"]:
        h = _load(spec["module"], hname)
        for _ in range(spec.get("n", 1)):
            env = ConcEnv({}, random.Random(rng.getrandbits(64)))
            try:
                h.run(env, shape)
                ok += 1
            except ConcreteViolation as v:
                failed.append(dict(harness=hname, shape=shape, inputs=env.used, label=v.label))
            except Skip:
                pass
            except Exception as e:
                failed.append(dict(harness=hname, shape=shape, inputs=env.used, label="error",
                                   error="%s: %s %s" % (type(e).__name__, e, traceback.format_exc()[-800:])))
    print(json.dumps(dict(ok=ok, failed=failed)))
    return 0


def main():
    if len(sys.argv) >= 2 and sys.argv[1] == "--validate":
        spec = json.load(sys.stdin)
        return validate(spec)
    try:
        return replay_file(sys.argv[1])
    except Exception:
        traceback.print_exc()
        return 3


if __name__ == "__main__":
    sys.exit(main())
