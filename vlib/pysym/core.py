"""PYSYM core: symbolic proxies for int / bool / bytes / bytearray / memoryview and the
path explorer (fork-by-re-execution under a decision prefix, z3 feasibility at each new branch).

Everything here is deliberately small and loud: a proxy that reaches code we do not model raises
TypeError (-> Inconclusive), never silently concretises.
"""
import itertools
import operator
import time

import z3

# --------------------------------------------------------------------------------------------
# control-flow exceptions: BaseException so that `except Exception` in library code cannot eat them


import os as _os
DUMP_DIR = _os.environ.get('PYSYM_DUMP_DIR')
DEBUG_SLOW = float(_os.environ.get('PYSYM_DEBUG_SLOW', '0'))


class PathAbort(BaseException):
    """Current path is infeasible / pruned."""


class Inconclusive(BaseException):
    """The engine cannot decide (unknown, cap exceeded, unsupported construct)."""


class Violation(BaseException):
    def __init__(self, label, model_inputs, detail=""):
        BaseException.__init__(self, label)
        self.label = label
        self.inputs = model_inputs
        self.detail = detail


# --------------------------------------------------------------------------------------------
# context


class Ctx(object):
    """One path execution."""

    current = None

    def __init__(self, prefix, stats, timeout_ms=60000, concretize_cap=300):
        self.prefix = prefix
        self.trace = []
        self.alts = []           # alternative prefixes discovered on this run
        self.solver = z3.Solver()
        self.solver.set("timeout", timeout_ms)
        self.timeout_ms = timeout_ms
        self.stats = stats
        self.inputs = {}         # name -> proxy (for model extraction)
        self.input_order = []
        self.concretize_cap = concretize_cap
        self.fresh_counter = itertools.count()
        self.tape = []           # random tape draws (SymBytes) in order
        self.notes = []
        self.checks = 0
        self.pc_size = 0
        self.uf_cache = {}
        self.axiom_keys = set()
        self.decided = {}
        self.keep = []

    # -- solver helpers
    def _check(self, *assumptions):
        t0 = time.time()
        r = self.solver.check(*assumptions)
        if DEBUG_SLOW and time.time() - t0 > DEBUG_SLOW:
            import traceback
            print("SLOW QUERY %.1fs %s" % (time.time() - t0, r))
            traceback.print_stack(limit=8)
        self.stats['solver_s'] += time.time() - t0
        self.stats['queries'] += 1
        return r

    def add(self, cond):
        if isinstance(cond, SymBool):
            cond = cond.e
        if cond is True:
            return
        if cond is False:
            raise PathAbort()
        self.solver.add(cond)
        self.pc_size += 1

    def assume(self, cond):
        """Harness-level assumption; aborts the path when infeasible."""
        if isinstance(cond, SymBool):
            cond = cond.e
        if isinstance(cond, bool):
            if not cond:
                raise PathAbort()
            return
        cond = z3.simplify(cond)
        if z3.is_true(cond):
            return
        if z3.is_false(cond):
            raise PathAbort()
        self.solver.add(cond)
        r = self._check()
        if r == z3.unsat:
            raise PathAbort()
        if r == z3.unknown:
            raise Inconclusive("assume: solver unknown")

    def axiom(self, key, fact):
        if key in self.axiom_keys:
            return
        self.axiom_keys.add(key)
        self.solver.add(fact)

    def branch(self, cond):
        """cond: z3 BoolRef.  Returns a Python bool, forking when both sides are feasible."""
        cond = z3.simplify(cond)
        if z3.is_true(cond):
            return True
        if z3.is_false(cond):
            return False
        cid = cond.get_id()
        known = self.decided.get(cid)
        if known is not None:
            return known
        i = len(self.trace)
        if i < len(self.prefix):
            kind, val = self.prefix[i]
            if kind != 'b':
                raise Inconclusive("non-deterministic re-execution (branch vs %r)" % (kind,))
            self.trace.append(('b', val))
            self.solver.add(cond if val else z3.Not(cond))
            self._remember(cond, val)
            return val
        r = self._branch_new(cond)
        self._remember(cond, r)
        return r

    def _remember(self, cond, val):
        self.decided[cond.get_id()] = val
        self.keep.append(cond)
        if z3.is_not(cond):
            c = cond.arg(0)
            self.decided[c.get_id()] = not val
            self.keep.append(c)

    def _fresh_check(self, extra):
        """feasibility by a fresh QF_UFBV solver (when the incremental core gives up)"""
        s2 = z3.SolverFor("QF_UFBV")
        s2.set("timeout", self.timeout_ms)
        s2.add(self.solver.assertions())
        s2.add(extra)
        t0 = time.time()
        r = s2.check()
        self.stats['solver_s'] += time.time() - t0
        self.stats['queries'] += 1
        return r

    def _branch_new(self, cond):
        self.solver.set("timeout", min(self.timeout_ms, 8000))
        try:
            rt = self._check(cond)
            rf = self._check(z3.Not(cond))
        finally:
            self.solver.set("timeout", self.timeout_ms)
        if rt == z3.unknown:
            rt = self._fresh_check(cond)
        if rf == z3.unknown:
            rf = self._fresh_check(z3.Not(cond))
        if rt == z3.unknown or rf == z3.unknown:
            raise Inconclusive("branch feasibility unknown")
        if rt == z3.sat and rf == z3.sat:
            self.stats['forks'] += 1
            self.alts.append(self.trace + [('b', False)])
            self.trace.append(('b', True))
            self.solver.add(cond)
            return True
        if rt == z3.sat:
            self.trace.append(('b', True))
            self.solver.add(cond)
            return True
        if rf == z3.sat:
            self.trace.append(('b', False))
            self.solver.add(z3.Not(cond))
            return False
        raise PathAbort()

    def concretize(self, e):
        """e: z3 BitVec expr (signed interpretation handled by the caller).  Exhaustive case split."""
        e = z3.simplify(e)
        if z3.is_bv_value(e):
            return e.as_long()
        n = 0
        while True:
            n += 1
            if n > self.concretize_cap:
                raise Inconclusive("concretize cap exceeded")
            i = len(self.trace)
            if i < len(self.prefix):
                kind, val = self.prefix[i]
                if kind != 'c':
                    raise Inconclusive("non-deterministic re-execution (concretize vs %r)" % (kind,))
                v, taken = val
                self.trace.append(('c', (v, taken)))
                if taken:
                    self.solver.add(e == v)
                    return v
                self.solver.add(e != v)
                continue
            r = self._check()
            if r == z3.unsat:
                raise PathAbort()
            if r == z3.unknown:
                raise Inconclusive("concretize: unknown")
            m = self.solver.model()
            v = m.eval(e, model_completion=True).as_long()
            r2 = self._check(e != v)
            if r2 == z3.unknown:
                raise Inconclusive("concretize: unknown")
            if r2 == z3.sat:
                self.stats['forks'] += 1
                self.alts.append(self.trace + [('c', (v, False))])
            self.trace.append(('c', (v, True)))
            self.solver.add(e == v)
            return v

    # -- symbolic inputs
    def sym_bytes(self, name, n, cls=None):
        bs = [z3.BitVec("%s_%d" % (name, i), 8) for i in range(n)]
        r = (cls or SymBytes)(bs)
        self.inputs[name] = ('bytes', bs)
        return r

    def sym_int(self, name, bits, signed=False):
        v = z3.BitVec(name, bits)
        self.inputs[name] = ('int', v, signed)
        if signed:
            return SymInt(v, bits)
        return SymInt(z3.ZeroExt(1, v), bits + 1, nn=True)

    def sym_bool(self, name):
        v = z3.Bool(name)
        self.inputs[name] = ('bool', v)
        return SymBool(v)

    def fresh_bytes(self, tag, n):
        k = next(self.fresh_counter)
        return self.sym_bytes("%s%d" % (tag, k), n)

    def uf(self, name, *sorts):
        key = (name,) + tuple(str(s) for s in sorts)
        f = self.uf_cache.get(key)
        if f is None:
            f = z3.Function(name, *sorts)
            self.uf_cache[key] = f
        return f

    # -- assertion
    def check(self, prop, label):
        """prop must hold on this path.  unsat(not prop) -> ok."""
        self.checks += 1
        self.stats['obligations'] += 1
        if isinstance(prop, SymBool):
            prop = prop.e
        if isinstance(prop, bool):
            if prop:
                self.stats['discharged'] += 1
                self.stats['trivial'] += 1
                return
            neg = z3.BoolVal(True)
        else:
            p = z3.simplify(prop)
            if z3.is_true(p):
                self.stats['discharged'] += 1
                self.stats['trivial'] += 1
                return
            neg = z3.Not(p)
        if DUMP_DIR:
            self.solver.push()
            self.solver.add(neg)
            with open(_os.path.join(DUMP_DIR, "q%d_%d.smt2" % (_os.getpid(), self.stats['obligations'])), "w") as f:
                f.write("(set-logic QF_UFBV)\n" + self.solver.to_smt2())
            self.solver.pop()
        # a fresh non-incremental solver runs z3's QF_UFBV tactic pipeline (measured ~10x faster on
        # these obligations than the incremental core used for branch feasibility)
        t0 = time.time()
        r = z3.unknown
        s2 = None
        # 1st: QF_UFBV tactic pipeline (fast on bit-level obligations); 2nd: the general SMT core
        # (congruence closure instead of Ackermannisation: needed when thousands of UF applications
        # are involved, e.g. a CBC-MAC over 64 KiB of associated data)
        for mk, tmo in ((lambda: z3.SolverFor("QF_UFBV"), min(self.timeout_ms, 25000)), (lambda: z3.Solver(), self.timeout_ms)):
            s2 = mk()
            s2.set("timeout", tmo)
            s2.add(self.solver.assertions())
            s2.add(neg)
            r = s2.check()
            self.stats['queries'] += 1
            if r != z3.unknown:
                break
        self.stats['solver_s'] += time.time() - t0
        if DEBUG_SLOW and time.time() - t0 > DEBUG_SLOW:
            print("SLOW CHECK %.1fs %s %s" % (time.time() - t0, r, label))
        if r == z3.unsat:
            self.stats['discharged'] += 1
            return
        if r == z3.unknown:
            raise Inconclusive("check %s: solver unknown (%s)" % (label, s2.reason_unknown()))
        m = s2.model()
        raise Violation(label, self.extract(m))

    def reachable(self):
        r = self._check()
        if r == z3.unknown:
            raise Inconclusive("reachability unknown")
        return r == z3.sat

    def extract(self, m):
        out = {}
        for name, spec in self.inputs.items():
            if spec[0] == 'bytes':
                out[name] = bytes(m.eval(b, model_completion=True).as_long() for b in spec[1]).hex()
            elif spec[0] == 'int':
                v = m.eval(spec[1], model_completion=True)
                out[name] = v.as_signed_long() if spec[2] else v.as_long()
            elif spec[0] == 'bool':
                out[name] = bool(z3.is_true(m.eval(spec[1], model_completion=True)))
        return out


def ctx():
    c = Ctx.current
    if c is None:
        raise RuntimeError("no active PYSYM context")
    return c


def new_stats():
    return dict(paths=0, aborted=0, forks=0, queries=0, solver_s=0.0, obligations=0, discharged=0,
                trivial=0, max_trace=0)


# z3.simplify normalises commutative operators by AST id; ids of dead terms are recycled, so the SAME
# Python computation can simplify differently in a re-execution and take another number of branch
# calls (observed).  While one shape is explored, term releases are therefore deferred: identical
# terms are then the identical hash-consed node in every re-execution and simplification is stable.
_DEFERRED = [None]
_orig_ast_del = z3.AstRef.__del__


def _deferred_del(self):
    d = _DEFERRED[0]
    if d is None:
        return _orig_ast_del(self)
    try:
        if self.ast is not None and self.ctx.ref() is not None:
            d.append((self.ctx, self.as_ast()))
            self.ast = None
    except Exception:
        pass


z3.AstRef.__del__ = _deferred_del


def _release_deferred(lst):
    import z3.z3core as zc
    for cx, a in lst:
        try:
            zc.Z3_dec_ref(cx.ref(), a)
        except Exception:
            pass
    del lst[:]


def explore(fn, stats=None, max_paths=4000, timeout_ms=60000, concretize_cap=300):
    outer = _DEFERRED[0]
    mine = [] if outer is None else outer
    _DEFERRED[0] = mine
    try:
        return _explore(fn, stats, max_paths, timeout_ms, concretize_cap)
    finally:
        if outer is None:
            _DEFERRED[0] = None
            _release_deferred(mine)


def _explore(fn, stats=None, max_paths=4000, timeout_ms=60000, concretize_cap=300):
    """Run fn(ctx) on every feasible path.  fn performs its own ctx.check() calls.
    Returns (stats, results) where results is the list of fn return values per completed path.
    Raises Violation / Inconclusive."""
    stats = stats if stats is not None else new_stats()
    work = [[]]
    results = []
    while work:
        prefix = work.pop()
        if stats['paths'] + stats['aborted'] >= max_paths:
            raise Inconclusive("path cap %d exceeded" % max_paths)
        c = Ctx(prefix, stats, timeout_ms=timeout_ms, concretize_cap=concretize_cap)
        prev = Ctx.current
        Ctx.current = c
        try:
            try:
                r = fn(c)
                stats['paths'] += 1
                results.append(r)
            except PathAbort:
                stats['aborted'] += 1
        finally:
            Ctx.current = prev
        stats['max_trace'] = max(stats['max_trace'], len(c.trace))
        work.extend(c.alts)
    return stats, results


# --------------------------------------------------------------------------------------------
# helpers

def is_sym(x):
    return isinstance(x, (SymInt, SymBool, SymBytes, SymByteArray, SymMemoryView))


def _simp(e):
    return z3.simplify(e)


def _bv_of_int(c):
    """Minimal signed width for a Python int."""
    if c >= 0:
        w = c.bit_length() + 1
    else:
        w = (-c - 1).bit_length() + 1
    return z3.BitVecVal(c, w), w


def _sext(e, w, to):
    if to == w:
        return e
    return z3.SignExt(to - w, e)


MAX_WIDTH = 1 << 14
# When set (bits), symbolic x symbolic products and reductions modulo a non-power-of-two whose operands
# are wider than this are replaced by uninterpreted functions (MULW / MODW / DIVW) with only the range
# fact 0 <= x mod m < m.  Harnesses that compare *framing* (what is hashed / multiplied / reduced, in
# which order) enable it; the arithmetic itself is then outside the claim (stated per harness).
ABSTRACT_WIDE = [None]


def _abstract(op, a, aw, b, bw, rw, range_m=None):
    c = ctx()
    f = c.uf("%s_%d_%d" % (op, aw, bw), z3.BitVecSort(aw), z3.BitVecSort(bw), z3.BitVecSort(rw))
    r = f(a, b)
    if range_m is not None:
        c.axiom((op, r.get_id()), z3.ULT(r, range_m))
    return r


class SymBool(object):
    __slots__ = ('e',)

    def __init__(self, e):
        self.e = e

    @staticmethod
    def make(e):
        e = _simp(e)
        if z3.is_true(e):
            return True
        if z3.is_false(e):
            return False
        return SymBool(e)

    def __bool__(self):
        return ctx().branch(self.e)

    def _co(self, o):
        if isinstance(o, SymBool):
            return o.e
        if isinstance(o, bool):
            return z3.BoolVal(o)
        return None

    def __eq__(self, o):
        oe = self._co(o)
        if oe is None:
            return NotImplemented
        return SymBool.make(self.e == oe)

    def __ne__(self, o):
        oe = self._co(o)
        if oe is None:
            return NotImplemented
        return SymBool.make(self.e != oe)

    def __and__(self, o):
        oe = self._co(o)
        if oe is None:
            return NotImplemented
        return SymBool.make(z3.And(self.e, oe))
    __rand__ = __and__

    def __or__(self, o):
        oe = self._co(o)
        if oe is None:
            return NotImplemented
        return SymBool.make(z3.Or(self.e, oe))
    __ror__ = __or__

    def __xor__(self, o):
        oe = self._co(o)
        if oe is None:
            return NotImplemented
        return SymBool.make(z3.Xor(self.e, oe))
    __rxor__ = __xor__

    def __invert__(self):
        return SymBool.make(z3.Not(self.e))

    def as_int(self):
        return SymInt.make(z3.If(self.e, z3.BitVecVal(1, 2), z3.BitVecVal(0, 2)), 2, nn=True)

    def __hash__(self):
        raise TypeError("unhashable symbolic bool")

    def __repr__(self):
        return "<SymBool %s>" % (str(self.e)[:80],)


def sym_not(x):
    if isinstance(x, SymBool):
        return SymBool.make(z3.Not(x.e))
    return not x


def sym_and(*xs):
    es = []
    for x in xs:
        if isinstance(x, SymBool):
            es.append(x.e)
        elif not x:
            return False
    if not es:
        return True
    return SymBool.make(z3.And(*es))


def sym_or(*xs):
    es = []
    for x in xs:
        if isinstance(x, SymBool):
            es.append(x.e)
        elif x:
            return True
    if not es:
        return False
    return SymBool.make(z3.Or(*es))


def bool_expr(x):
    if isinstance(x, SymBool):
        return x.e
    return z3.BoolVal(bool(x))


class SymInt(object):
    """Exact Python int semantics on a width-tracked signed bit-vector."""
    __slots__ = ('e', 'w', 'nn')

    def __init__(self, e, w, nn=False):
        self.e = e
        self.w = w
        self.nn = nn

    @staticmethod
    def make(e, w, nn=False):
        if w > MAX_WIDTH:
            raise Inconclusive("symbolic integer wider than %d bits" % MAX_WIDTH)
        e = _simp(e)
        if z3.is_bv_value(e):
            return e.as_signed_long()
        return SymInt(e, w, nn)

    @staticmethod
    def co(o):
        """-> (expr, width, nn) or None"""
        if isinstance(o, SymInt):
            return o.e, o.w, o.nn
        if isinstance(o, bool):
            o = int(o)
        if isinstance(o, int):
            e, w = _bv_of_int(o)
            return e, w, o >= 0
        if isinstance(o, SymBool):
            s = o.as_int()
            return SymInt.co(s)
        return None

    # narrowing of statically non-negative values: drop redundant leading bits is not attempted;
    # widths only grow through + * << and shrink through & >> %.

    def _bin(self, o):
        c = SymInt.co(o)
        if c is None:
            return None
        return c

    def __add__(self, o):
        c = self._bin(o)
        if c is None:
            return NotImplemented
        oe, ow, onn = c
        w = max(self.w, ow) + 1
        return SymInt.make(_sext(self.e, self.w, w) + _sext(oe, ow, w), w, self.nn and onn)
    __radd__ = __add__

    def __sub__(self, o):
        c = self._bin(o)
        if c is None:
            return NotImplemented
        oe, ow, onn = c
        w = max(self.w, ow) + 1
        return SymInt.make(_sext(self.e, self.w, w) - _sext(oe, ow, w), w)

    def __rsub__(self, o):
        c = self._bin(o)
        if c is None:
            return NotImplemented
        oe, ow, onn = c
        w = max(self.w, ow) + 1
        return SymInt.make(_sext(oe, ow, w) - _sext(self.e, self.w, w), w)

    def __neg__(self):
        w = self.w + 1
        return SymInt.make(-_sext(self.e, self.w, w), w)

    def __pos__(self):
        return self

    def __abs__(self):
        w = self.w + 1
        e = _sext(self.e, self.w, w)
        return SymInt.make(z3.If(e < 0, -e, e), w, nn=True)

    def __invert__(self):
        return SymInt.make(~self.e, self.w)

    def __mul__(self, o):
        if isinstance(o, (SymBytes, bytes, bytearray, list, tuple, str)):
            return o * self.__index__()
        c = self._bin(o)
        if c is None:
            return NotImplemented
        oe, ow, onn = c
        w = self.w + ow
        t = ABSTRACT_WIDE[0]
        if t is not None and w > t and not z3.is_bv_value(oe) and self.nn and onn:
            a, b = (self.e, self.w), (oe, ow)
            if a[0].get_id() > b[0].get_id():      # commutative: canonical argument order
                a, b = b, a
            return SymInt.make(_abstract("MULW", a[0], a[1], b[0], b[1], w), w, True)
        return SymInt.make(_sext(self.e, self.w, w) * _sext(oe, ow, w), w, self.nn and onn)
    __rmul__ = __mul__

    def _bitop(self, o, op):
        c = self._bin(o)
        if c is None:
            return NotImplemented
        oe, ow, onn = c
        w = max(self.w, ow)
        r = op(_sext(self.e, self.w, w), _sext(oe, ow, w))
        if op is operator.and_:
            # non-negative operand bounds the width of the result
            cands = [x for x, n in ((self.w, self.nn), (ow, onn)) if n]
            if cands:
                nw = min(cands)
                return SymInt.make(z3.Extract(nw - 1, 0, r), nw, nn=True)
            return SymInt.make(r, w)
        return SymInt.make(r, w, self.nn and onn)

    def __and__(self, o):
        return self._bitop(o, operator.and_)
    __rand__ = __and__

    def __or__(self, o):
        return self._bitop(o, operator.or_)
    __ror__ = __or__

    def __xor__(self, o):
        return self._bitop(o, operator.xor)
    __rxor__ = __xor__

    def __lshift__(self, k):
        if isinstance(k, SymInt):
            if k.w <= 9:
                if not k.nn and ctx().branch(k.e < 0):
                    raise ValueError("negative shift count")
                kmax = (1 << (k.w - 1)) - 1
                w = self.w + kmax
                return SymInt.make(_sext(self.e, self.w, w) << z3.ZeroExt(w - k.w, k.e) if w > k.w
                                   else _sext(self.e, self.w, w) << z3.Extract(w - 1, 0, k.e), w, self.nn)
            k = k.__index__()
        if not isinstance(k, int):
            return NotImplemented
        if k < 0:
            raise ValueError("negative shift count")
        w = self.w + k
        return SymInt.make(_sext(self.e, self.w, w) << k, w, self.nn)

    def __rlshift__(self, o):
        # concrete << symbolic
        k = self.__index__()
        return o << k

    def __rshift__(self, k):
        if isinstance(k, SymInt):
            if not k.nn and ctx().branch(k.e < 0):
                raise ValueError("negative shift count")
            w = max(self.w, k.w)
            ke = k.e if k.w == w else z3.ZeroExt(w - k.w, k.e)
            r = _sext(self.e, self.w, w) >> ke
            return SymInt.make(z3.Extract(self.w - 1, 0, r), self.w, self.nn)
        if not isinstance(k, int):
            return NotImplemented
        if k < 0:
            raise ValueError("negative shift count")
        if k == 0:
            return self
        if k >= self.w - 1:
            # only the sign survives
            if self.nn:
                return 0
            return SymInt.make(z3.Extract(self.w - 1, self.w - 1, self.e), 1)
        nw = self.w - k
        return SymInt.make(z3.Extract(self.w - 1, k, self.e), nw, self.nn)

    def __rrshift__(self, o):
        k = self.__index__()
        return o >> k

    def _divmod(self, a, aw, b, bw):
        w = max(aw, bw) + 1
        a = _sext(a, aw, w)
        b = _sext(b, bw, w)
        if ctx().branch(b == 0):
            raise ZeroDivisionError("integer division or modulo by zero")
        q = a / b          # bvsdiv (truncating)
        r = z3.SRem(a, b)
        adj = z3.And(r != 0, (r < 0) != (b < 0))
        q = z3.If(adj, q - 1, q)
        r = z3.If(adj, r + b, r)
        return q, r, w

    def __floordiv__(self, o):
        c = self._bin(o)
        if c is None:
            return NotImplemented
        oe, ow, onn = c
        if self.nn and z3.is_bv_value(oe) and oe.as_signed_long() > 0:
            d = oe.as_signed_long()
            if d & (d - 1) == 0:
                return self >> (d.bit_length() - 1)
            w = max(self.w, ow)
            return SymInt.make(z3.UDiv(_sext(self.e, self.w, w), _sext(oe, ow, w)), w, nn=True)
        q, r, w = self._divmod(self.e, self.w, oe, ow)
        return SymInt.make(q, w, self.nn and onn)

    def __rfloordiv__(self, o):
        c = self._bin(o)
        if c is None:
            return NotImplemented
        oe, ow, onn = c
        q, r, w = self._divmod(oe, ow, self.e, self.w)
        return SymInt.make(q, w, self.nn and onn)

    def __mod__(self, o):
        c = self._bin(o)
        if c is None:
            return NotImplemented
        oe, ow, onn = c
        if z3.is_bv_value(oe) and oe.as_signed_long() > 0:
            d = oe.as_signed_long()
            if d & (d - 1) == 0:
                return self & (d - 1)
            if self.nn:
                w = max(self.w, ow)
                t = ABSTRACT_WIDE[0]
                if t is not None and w > t:
                    r = _abstract("MODW", self.e, self.w, oe, ow, ow, range_m=oe)
                    return SymInt.make(r, ow, nn=True)
                r = z3.URem(_sext(self.e, self.w, w), _sext(oe, ow, w))
                return SymInt.make(z3.Extract(ow - 1, 0, r), ow, nn=True)
        t = ABSTRACT_WIDE[0]
        if t is not None and max(self.w, ow) > t and self.nn and onn:
            if ctx().branch(oe == 0):
                raise ZeroDivisionError("integer division or modulo by zero")
            r = _abstract("MODW", self.e, self.w, oe, ow, ow, range_m=oe)
            return SymInt.make(r, ow, nn=True)
        q, r, w = self._divmod(self.e, self.w, oe, ow)
        return SymInt.make(r, w, onn)

    def __rmod__(self, o):
        c = self._bin(o)
        if c is None:
            return NotImplemented
        oe, ow, onn = c
        q, r, w = self._divmod(oe, ow, self.e, self.w)
        return SymInt.make(r, w, self.nn)

    def __divmod__(self, o):
        return self // o, self % o

    def __rdivmod__(self, o):
        return o // self, o % self

    def __truediv__(self, o):
        raise Inconclusive("float division on symbolic int")

    def __pow__(self, o, m=None):
        if isinstance(o, int) and m is None and 0 <= o <= 4:
            r = 1
            for _ in range(o):
                r = r * self
            return r
        raise Inconclusive("pow on symbolic int (use the dispatcher model)")

    def __rpow__(self, o, m=None):
        k = self.__index__()
        return pow(o, k, m) if m is not None else o ** k

    def _cmp(self, o, op):
        c = self._bin(o)
        if c is None:
            return NotImplemented
        oe, ow, onn = c
        w = max(self.w, ow)
        return SymBool.make(op(_sext(self.e, self.w, w), _sext(oe, ow, w)))

    def __eq__(self, o):
        return self._cmp(o, operator.eq)

    def __ne__(self, o):
        return self._cmp(o, operator.ne)

    def __lt__(self, o):
        return self._cmp(o, operator.lt)

    def __le__(self, o):
        return self._cmp(o, operator.le)

    def __gt__(self, o):
        return self._cmp(o, operator.gt)

    def __ge__(self, o):
        return self._cmp(o, operator.ge)

    def __bool__(self):
        return ctx().branch(self.e != 0)

    def __index__(self):
        c = ctx()
        v = c.concretize(self.e)
        # concretize returns the unsigned value of the bit pattern
        if v >= (1 << (self.w - 1)):
            v -= (1 << self.w)
        return v

    def __hash__(self):
        raise TypeError("unhashable symbolic int")

    def bit_length(self):
        w = self.w
        e = _sext(self.e, w, w + 1)
        a = z3.If(e < 0, -e, e)
        bw = max(w.bit_length() + 1, 2)
        r = z3.BitVecVal(0, bw)
        for i in range(w + 1):
            r = z3.If(z3.Extract(i, i, a) == 1, z3.BitVecVal(i + 1, bw), r)
        return SymInt.make(r, bw, nn=True)

    def to_bytes(self, length=1, byteorder='big', signed=False):
        if isinstance(length, SymInt):
            length = length.__index__()
        bits = 8 * length
        c = ctx()
        if signed:
            raise Inconclusive("signed to_bytes on symbolic int")
        if not self.nn:
            if c.branch(self.e < 0):
                raise OverflowError("can't convert negative int to unsigned")
        if self.w - 1 > bits:
            hi = z3.Extract(self.w - 1, bits, self.e)
            if c.branch(hi != 0):
                raise OverflowError("int too big to convert")
        e = self.e
        if self.w < bits:
            e = z3.ZeroExt(bits - self.w, e)
        out = [_simp_byte(z3.Extract(8 * i + 7, 8 * i, e)) for i in range(length)]
        if byteorder == 'big':
            out.reverse()
        return SymBytes(out)

    def __repr__(self):
        return "<SymInt w=%d %s>" % (self.w, str(self.e)[:60])

    __str__ = __repr__

    def __format__(self, spec):
        return "<sym>"


def _simp_byte(e):
    e = _simp(e)
    if z3.is_bv_value(e):
        return e.as_long()
    return e


def int_from_bytes(bs, byteorder='big', signed=False):
    """bs: list of byte elements (int or BV8 exprs)."""
    if signed:
        raise Inconclusive("signed from_bytes")
    n = len(bs)
    if n == 0:
        return 0
    if all(isinstance(b, int) for b in bs):
        return int.from_bytes(bytes(bs), byteorder)
    seq = list(bs)
    if byteorder == 'little':
        seq.reverse()
    parts = [z3.BitVecVal(0, 1)] + [b if not isinstance(b, int) else z3.BitVecVal(b, 8) for b in seq]
    return SymInt.make(z3.Concat(*parts), 8 * n + 1, nn=True)


def byte_expr(b):
    if isinstance(b, int):
        return z3.BitVecVal(b, 8)
    return b


def byte_to_int(b):
    """element -> int or SymInt (0..255)"""
    if isinstance(b, int):
        return b
    return SymInt(z3.ZeroExt(1, b), 9, nn=True)


def int_to_byte(v, what="byte"):
    """int/SymInt -> element; raises ValueError when out of range (forking)."""
    if isinstance(v, SymBool):
        v = v.as_int()
    if isinstance(v, bool):
        v = int(v)
    if isinstance(v, int):
        if not 0 <= v < 256:
            raise ValueError("byte must be in range(0, 256)")
        return v
    if isinstance(v, SymInt):
        if v.w > 9 or not v.nn:
            ok = sym_and(v >= 0, v < 256)
            if not ok:
                raise ValueError("byte must be in range(0, 256)")
        if v.w >= 8:
            return _simp_byte(z3.Extract(7, 0, v.e))
        return _simp_byte(z3.ZeroExt(8 - v.w, v.e)) if v.nn else _simp_byte(z3.SignExt(8 - v.w, v.e))
    inner = getattr(v, '_value', None)      # Crypto.Math IntegerNative
    if isinstance(inner, (int, SymInt)):
        return int_to_byte(inner, what)
    if hasattr(v, '__index__'):
        return int_to_byte(operator.index(v), what)
    raise TypeError("an integer is required for a %s, got %r" % (what, type(v)))


def _elems(o):
    """bytes-like -> list of elements or None"""
    if isinstance(o, (SymBytes, SymByteArray)):
        return o.b
    if isinstance(o, SymMemoryView):
        return o.elems()
    if isinstance(o, (bytes, bytearray)):
        return list(o)
    if isinstance(o, memoryview):
        return list(o.tobytes())
    return None


def all_concrete(bs):
    for b in bs:
        if not isinstance(b, int):
            return False
    return True


def _eq_elems(a, b):
    if len(a) != len(b):
        return False
    conds = []
    for x, y in zip(a, b):
        if isinstance(x, int) and isinstance(y, int):
            if x != y:
                return False
        else:
            if x is y:
                continue
            conds.append(byte_expr(x) == byte_expr(y))
    if not conds:
        return True
    return SymBool.make(z3.And(*conds))


class _SymSeq(object):
    """shared behaviour of SymBytes / SymByteArray"""
    __slots__ = ()

    def __len__(self):
        return len(self.b)

    def _idx(self, i):
        if isinstance(i, SymInt):
            return i
        return operator.index(i)

    def __getitem__(self, i):
        if isinstance(i, slice):
            return self._new(self.b[_cslice(i)])
        if isinstance(i, SymInt):
            return self._sym_index(i)
        return byte_to_int(self.b[operator.index(i)])

    def _sym_index(self, i):
        n = len(self.b)
        c = ctx()
        ok = sym_and(i >= -n, i < n)
        if not ok:
            raise IndexError("index out of range")
        if n > 64:
            return byte_to_int(self.b[i.__index__()])
        neg = SymBool.make(i.e < 0) if not i.nn else False
        if neg is not False:
            return byte_to_int(self.b[i.__index__()])
        w = max(i.w, n.bit_length() + 1)
        ie = _sext(i.e, i.w, w)
        r = byte_expr(self.b[n - 1])
        for k in range(n - 2, -1, -1):
            r = z3.If(ie == k, byte_expr(self.b[k]), r)
        return SymInt.make(z3.ZeroExt(1, r), 9, nn=True)

    def __iter__(self):
        for x in list(self.b):
            yield byte_to_int(x)

    def __reversed__(self):
        for x in reversed(list(self.b)):
            yield byte_to_int(x)

    def __eq__(self, o):
        ob = _elems(o)
        if ob is None:
            return NotImplemented if not isinstance(o, (str, int, type(None))) else False
        inj = _inj_eq(self, o)
        if inj is not None:
            return inj
        return _eq_elems(self.b, ob)

    def __ne__(self, o):
        r = self.__eq__(o)
        if r is NotImplemented:
            return r
        return sym_not(r)

    def _cmp_lex(self, o, strict_less, allow_eq):
        ob = _elems(o)
        if ob is None:
            return NotImplemented
        a = self.b
        if all_concrete(a) and all_concrete(ob):
            x, y = bytes(a), bytes(ob)
            if strict_less:
                return x <= y if allow_eq else x < y
            return x >= y if allow_eq else x > y
        # lexicographic on symbolic content: build the formula
        n = min(len(a), len(ob))
        # tail result when all common bytes equal
        if strict_less:
            tail = (len(a) <= len(ob)) if allow_eq else (len(a) < len(ob))
        else:
            tail = (len(a) >= len(ob)) if allow_eq else (len(a) > len(ob))
        r = z3.BoolVal(tail)
        for k in range(n - 1, -1, -1):
            x, y = byte_expr(a[k]), byte_expr(ob[k])
            r = z3.If(x == y, r, z3.ULT(x, y) if strict_less else z3.UGT(x, y))
        return SymBool.make(r)

    def __lt__(self, o):
        return self._cmp_lex(o, True, False)

    def __le__(self, o):
        return self._cmp_lex(o, True, True)

    def __gt__(self, o):
        return self._cmp_lex(o, False, False)

    def __ge__(self, o):
        return self._cmp_lex(o, False, True)

    def __add__(self, o):
        ob = _elems(o)
        if ob is None:
            return NotImplemented
        return self._new(list(self.b) + list(ob))

    def __radd__(self, o):
        ob = _elems(o)
        if ob is None:
            return NotImplemented
        if isinstance(o, (bytearray, SymByteArray)):
            return SymByteArray(list(ob) + list(self.b))
        return SymBytes(list(ob) + list(self.b))

    def __mul__(self, k):
        k = operator.index(k)
        return self._new(list(self.b) * k)
    __rmul__ = __mul__

    def __contains__(self, x):
        if isinstance(x, (int, SymInt)):
            for e in self.b:
                if byte_to_int(e) == x:
                    return True
            return False
        xb = _elems(x)
        if xb is None:
            raise TypeError("a bytes-like object is required")
        return self.find(x) != -1

    def __hash__(self):
        if all_concrete(self.b) and isinstance(self, SymBytes):
            return hash(bytes(self.b))
        raise TypeError("unhashable symbolic bytes")

    def __bool__(self):
        return len(self.b) > 0

    # --- bytes methods (subset)
    def hex(self):
        if all_concrete(self.b):
            return bytes(self.b).hex()
        raise Inconclusive("hex() of symbolic bytes")

    def concrete(self):
        if all_concrete(self.b):
            return bytes(self.b)
        raise Inconclusive("symbolic bytes where concrete bytes are required")

    def startswith(self, p, start=0):
        if isinstance(p, tuple):
            for q in p:
                if self.startswith(q, start):
                    return True
            return False
        pb = _elems(p)
        if pb is None:
            raise TypeError("startswith first arg must be bytes")
        seg = self.b[start:start + len(pb)]
        r = _eq_elems(seg, pb)
        return bool(r)

    def endswith(self, p):
        pb = _elems(p)
        if len(pb) > len(self.b):
            return False
        seg = self.b[len(self.b) - len(pb):]
        return bool(_eq_elems(seg, pb))

    def find(self, sub, start=0, end=None):
        if isinstance(sub, (int, SymInt)):
            sb = [int_to_byte(sub)]
        else:
            sb = _elems(sub)
        n = len(self.b) if end is None else min(end, len(self.b))
        for i in range(start, n - len(sb) + 1):
            if _eq_elems(self.b[i:i + len(sb)], sb):   # forks
                return i
        return -1

    def index(self, sub, start=0, end=None):
        r = self.find(sub, start, end)
        if r < 0:
            raise ValueError("subsection not found")
        return r

    def rfind(self, sub):
        sb = _elems(sub) if not isinstance(sub, (int, SymInt)) else [int_to_byte(sub)]
        for i in range(len(self.b) - len(sb), -1, -1):
            if _eq_elems(self.b[i:i + len(sb)], sb):
                return i
        return -1

    def count(self, sub):
        sb = _elems(sub) if not isinstance(sub, (int, SymInt)) else [int_to_byte(sub)]
        cnt = 0
        i = 0
        while i + len(sb) <= len(self.b):
            if _eq_elems(self.b[i:i + len(sb)], sb):
                cnt += 1
                i += max(1, len(sb))
            else:
                i += 1
        return cnt

    def lstrip(self, chars=None):
        cs = _elems(chars)
        i = 0
        while i < len(self.b):
            e = byte_to_int(self.b[i])
            hit = False
            for c in cs:
                if e == c:          # forks when symbolic
                    hit = True
                    break
            if not hit:
                break
            i += 1
        return self._new(self.b[i:])

    def rstrip(self, chars=None):
        cs = _elems(chars)
        i = len(self.b)
        while i > 0:
            e = byte_to_int(self.b[i - 1])
            hit = False
            for c in cs:
                if e == c:
                    hit = True
                    break
            if not hit:
                break
            i -= 1
        return self._new(self.b[:i])

    def split(self, sep=None, maxsplit=-1):
        return [SymBytes(list(x)) for x in self.concrete().split(sep, maxsplit)]

    def decode(self, *a, **k):
        return self.concrete().decode(*a, **k)

    def tobytes(self):
        return SymBytes(list(self.b))

    def join(self, parts):
        out = []
        first = True
        for p in parts:
            if not first:
                out.extend(self.b)
            first = False
            pb = _elems(p)
            if pb is None:
                raise TypeError("sequence item: expected a bytes-like object, %s found" % type(p).__name__)
            out.extend(pb)
        return self._new(out)

    def ljust(self, n, fill=b'\x00'):
        f = _elems(fill)
        return self._new(list(self.b) + f * max(0, n - len(self.b)))

    def rjust(self, n, fill=b'\x00'):
        f = _elems(fill)
        return self._new(f * max(0, n - len(self.b)) + list(self.b))

    def __repr__(self):
        if all_concrete(self.b):
            return "%s(%r)" % (type(self).__name__, bytes(self.b))
        return "<%s len=%d>" % (type(self).__name__, len(self.b))


def _cslice(s):
    """slice with possibly symbolic bounds -> concrete slice (case split through __index__)."""
    def f(x):
        if x is None:
            return None
        return operator.index(x)
    return slice(f(s.start), f(s.stop), f(s.step))


class SymBytes(_SymSeq):
    __slots__ = ('b', 'inj')

    def __init__(self, b, inj=None):
        self.b = list(b)
        self.inj = inj

    def _new(self, b):
        return SymBytes(b)

    def __getitem__(self, i):
        r = _SymSeq.__getitem__(self, i)
        if isinstance(i, slice) and isinstance(self.inj, tuple) and i.start in (None, 0) \
                and i.step in (None, 1) and len(r.b) >= self.inj[2]:
            r.inj = self.inj
        return r


class SymByteArray(_SymSeq):
    __slots__ = ('b', 'inj', 'exports')

    def __init__(self, b=()):
        self.b = list(b)
        self.inj = None
        self.exports = 0

    def _new(self, b):
        return SymByteArray(b)

    def __setitem__(self, i, v):
        if isinstance(i, slice):
            vb = _elems(v)
            if vb is None:
                vb = [int_to_byte(x) for x in v]
            self.b[_cslice(i)] = vb
            self.inj = None
            return
        self.b[operator.index(i)] = int_to_byte(v)
        self.inj = None

    def __delitem__(self, i):
        if isinstance(i, slice):
            del self.b[_cslice(i)]
        else:
            del self.b[operator.index(i)]

    def __iadd__(self, o):
        ob = _elems(o)
        if ob is None:
            return NotImplemented
        self.b.extend(ob)
        return self

    def extend(self, o):
        ob = _elems(o)
        if ob is None:
            ob = [int_to_byte(x) for x in o]
        self.b.extend(ob)

    def append(self, v):
        self.b.append(int_to_byte(v))

    def clear(self):
        del self.b[:]

    def copy(self):
        return SymByteArray(self.b)

    def reverse(self):
        self.b.reverse()

    __hash__ = None


class SymMemoryView(object):
    """memoryview over a SymBytes (read-only) or SymByteArray (writable); 1-D bytes only."""
    __slots__ = ('base', 'off', 'n', 'readonly', 'released')

    def __init__(self, base, off=0, n=None, readonly=None):
        if isinstance(base, SymMemoryView):
            off = base.off + off
            n = base.n - off if n is None else n
            ro = base.readonly
            base = base.base
        elif isinstance(base, (bytes, bytearray)):
            ro = isinstance(base, bytes)
            base = SymBytes(list(base)) if ro else SymByteArray(list(base))
        else:
            ro = isinstance(base, SymBytes)
        self.base = base
        self.off = off
        self.n = (len(base.b) - off) if n is None else n
        self.readonly = ro if readonly is None else readonly
        self.released = False

    def elems(self):
        return self.base.b[self.off:self.off + self.n]

    def __len__(self):
        return self.n

    @property
    def nbytes(self):
        return self.n

    @property
    def itemsize(self):
        return 1

    @property
    def format(self):
        return 'B'

    @property
    def ndim(self):
        return 1

    @property
    def obj(self):
        return self.base

    def tobytes(self):
        return SymBytes(self.elems())

    def tolist(self):
        return [byte_to_int(x) for x in self.elems()]

    def release(self):
        self.released = True

    def __enter__(self):
        return self

    def __exit__(self, *a):
        self.release()

    def cast(self, fmt, shape=None):
        if fmt in ('B', 'b', 'c'):
            return self
        raise Inconclusive("memoryview.cast(%r)" % (fmt,))

    def __getitem__(self, i):
        if isinstance(i, slice):
            s = _cslice(i)
            start, stop, step = s.indices(self.n)
            if step != 1:
                raise Inconclusive("strided memoryview")
            return SymMemoryView(self.base, self.off + start, max(0, stop - start), self.readonly)
        i = operator.index(i)
        if i < 0:
            i += self.n
        if not 0 <= i < self.n:
            raise IndexError("index out of bounds on dimension 1")
        return byte_to_int(self.base.b[self.off + i])

    def __setitem__(self, i, v):
        if self.readonly:
            raise TypeError("cannot modify read-only memory")
        if isinstance(i, slice):
            s = _cslice(i)
            start, stop, step = s.indices(self.n)
            if step != 1:
                raise Inconclusive("strided memoryview")
            vb = _elems(v)
            if vb is None:
                raise TypeError("a bytes-like object is required")
            if len(vb) != max(0, stop - start):
                raise ValueError("memoryview assignment: lvalue and rvalue have different structures")
            self.base.b[self.off + start:self.off + stop] = vb
            return
        i = operator.index(i)
        if i < 0:
            i += self.n
        if not 0 <= i < self.n:
            raise IndexError("index out of bounds on dimension 1")
        self.base.b[self.off + i] = int_to_byte(v)

    def __iter__(self):
        for x in self.elems():
            yield byte_to_int(x)

    def __eq__(self, o):
        ob = _elems(o)
        if ob is None:
            return NotImplemented
        return _eq_elems(self.elems(), ob)

    def __ne__(self, o):
        r = self.__eq__(o)
        if r is NotImplemented:
            return r
        return sym_not(r)

    def __add__(self, o):
        raise TypeError("unsupported operand type(s) for +: 'memoryview'")

    def __radd__(self, o):
        ob = _elems(o)
        if ob is None or isinstance(o, (memoryview, SymMemoryView)):
            return NotImplemented
        if isinstance(o, (bytearray, SymByteArray)):
            return SymByteArray(list(ob) + self.elems())
        return SymBytes(list(ob) + self.elems())

    __hash__ = None

    def __repr__(self):
        return "<SymMemoryView off=%d n=%d ro=%s>" % (self.off, self.n, self.readonly)


def _inj_eq(a, b):
    """Equality of two digests produced by an injectivity-assumed keyed MAC (fresh random key):
    equal iff the authenticated strings are equal (length included)."""
    ia = getattr(a, 'inj', None)
    ib = getattr(b, 'inj', None)
    if ia is None or ib is None:
        return None
    if ia[0] is not ib[0]:
        return None
    return _eq_elems(ia[1], ib[1])


# --------------------------------------------------------------------------------------------
# conversion utilities for harnesses / natives

def to_elems(x):
    e = _elems(x)
    if e is None:
        raise TypeError("bytes-like object required, got %s" % type(x).__name__)
    return list(e)


def bv_of_elems(bs):
    """list of byte elements -> one BV of 8*len bits (big-endian order); len 0 not allowed."""
    if len(bs) == 1:
        return byte_expr(bs[0])
    return z3.Concat(*[byte_expr(b) for b in bs])


def elems_of_bv(e, n):
    """BV of 8n bits -> n elements (big-endian)."""
    return [_simp_byte(z3.Extract(8 * (n - 1 - i) + 7, 8 * (n - 1 - i), e)) for i in range(n)]


def lift_bytes(x):
    if isinstance(x, (SymBytes, SymByteArray, SymMemoryView)):
        return x
    if isinstance(x, bytes):
        return SymBytes(list(x))
    if isinstance(x, bytearray):
        return SymByteArray(list(x))
    if isinstance(x, memoryview):
        return SymBytes(list(x.tobytes()))
    raise TypeError(type(x).__name__)
