"""Replacement of the native boundary (Crypto.Util._raw_api) for PYSYM.

The real _raw_api.py source is still loaded (through the rewriting importer) so that SmartPointer,
is_buffer, is_writeable_buffer are the repository's own; only the functions that touch cffi/ctypes
are replaced.  `load_pycryptodome_raw_lib(name, cdecl)` returns a contract model of that C module
(written over the uninterpreted primitives of vlib.prims) or, when the LLSYM bridge is enabled for the
module, the real C function executed symbolically from LLVM IR.
"""
import operator
import sys

import z3

from . import core
from .core import (SymInt, SymBool, SymBytes, SymByteArray, SymMemoryView, Inconclusive, ctx,
                   to_elems, byte_expr, byte_to_int, int_to_byte, bv_of_elems, elems_of_bv)

LIBS = {}            # "Crypto.Cipher._raw_ecb" -> factory() -> lib object
lib_loads = []       # names requested (evidence)
stub_uses = set()    # primitives actually applied (evidence)


def register(name):
    def deco(cls):
        LIBS[name] = cls
        return cls
    return deco


# --------------------------------------------------------------------------------------------
# pointers / buffers

class Ref(object):
    def __init__(self, vp):
        self.vp = vp

    def set(self, v):
        self.vp._v = v


class FakeVoidPointer(object):
    def __init__(self):
        self._v = None

    def get(self):
        return self._v

    def address_of(self):
        return Ref(self)


def c_uint8_ptr(data):
    if isinstance(data, (SymBytes, SymByteArray, SymMemoryView, bytes, bytearray, memoryview)):
        return data
    raise TypeError("Object type %s cannot be passed to C code" % type(data))


def create_string_buffer(init_or_size, size=None):
    if isinstance(init_or_size, (bytes, SymBytes)):
        e = to_elems(init_or_size)
        n = max(len(e) + 1, size or 0)
        return SymByteArray(e + [0] * (n - len(e)))
    if size:
        raise ValueError("Size must be specified once only")
    return SymByteArray([0] * operator.index(init_or_size))


def get_raw_buffer(buf):
    r = SymBytes(to_elems(buf))
    r.inj = getattr(buf, 'inj', None)
    return r


def get_c_string(buf):
    e = to_elems(buf)
    out = []
    for x in e:
        if isinstance(x, int) and x == 0:
            break
        out.append(x)
    return SymBytes(out)


def _ident(x):
    return x


def _c_ulong(x):
    """ctypes.c_ulong(v) keeps v modulo 2^64 silently (cffi would raise OverflowError): model the weaker back-end"""
    v = getattr(x, '_value', x)
    return v & 0xFFFFFFFFFFFFFFFF


def c_ubyte(c):
    ok = core.sym_and(0 <= c, c < 256)
    if not ok:
        raise OverflowError()
    return c


class ContractBreach(Inconclusive):
    """the Python layer handed the native code a length that overruns a buffer it passed (the C would read or
    write out of bounds).  Subclass of Inconclusive (a BaseException, so library code cannot swallow it): harnesses
    that examine wrapper guards catch it and report a violation; elsewhere it stays an inconclusive result"""


def rd(buf, n, off=0):
    """read n byte elements from a caller buffer"""
    e = to_elems(buf)
    n = operator.index(n)
    if off + n > len(e):
        raise ContractBreach("native model: read of %d bytes beyond a %d-byte buffer" % (off + n, len(e)))
    return e[off:off + n]


def wr(buf, elems, off=0):
    if isinstance(buf, SymByteArray):
        if off + len(elems) > len(buf.b):
            raise ContractBreach("native model: write of %d bytes beyond a %d-byte buffer" % (off + len(elems), len(buf.b)))
        buf.b[off:off + len(elems)] = elems
        buf.inj = None
        return
    if isinstance(buf, SymMemoryView):
        if buf.readonly:
            raise Inconclusive("native model: write to read-only view")
        if off + len(elems) > buf.n:
            raise ContractBreach("native model: write of %d bytes beyond a %d-byte view" % (off + len(elems), buf.n))
        buf.base.b[buf.off + off:buf.off + off + len(elems)] = elems
        return
    if isinstance(buf, SymBytes):
        # C code writing through a pointer into a bytes object (PKCS1_v1_5.decrypt passes
        # bytes(bytearray(k)) as the output buffer): the object's storage is what changes
        if off + len(elems) > len(buf.b):
            raise Inconclusive("native model: write beyond buffer")
        buf.b[off:off + len(elems)] = elems
        return
    if isinstance(buf, bytearray) and core.all_concrete(elems):
        buf[off:off + len(elems)] = bytes(elems)
        return
    if isinstance(buf, memoryview) and core.all_concrete(elems) and not buf.readonly:
        buf[off:off + len(elems)] = bytes(elems)
        return
    raise Inconclusive("native model: cannot write symbolic data into %s" % type(buf).__name__)


def xor_elems(a, b):
    out = []
    for x, y in zip(a, b):
        if isinstance(x, int) and isinstance(y, int):
            out.append(x ^ y)
        elif isinstance(x, int) and x == 0:
            out.append(y)
        elif isinstance(y, int) and y == 0:
            out.append(x)
        else:
            out.append(core._simp_byte(byte_expr(x) ^ byte_expr(y)))
    return out


# --------------------------------------------------------------------------------------------
# randomness: a symbolic tape

class Tape(object):
    mode = 'fresh'     # 'fresh' | 'forbid'
    provider = None


def random_bytes(n):
    if Tape.provider is not None:
        return Tape.provider(n)
    if Tape.mode == 'forbid':
        raise Inconclusive("default RNG touched where the harness forbids it")
    c = ctx()
    r = c.fresh_bytes("rnd", n)
    r.inj = 'random'
    c.tape.append(r)
    return r


# --------------------------------------------------------------------------------------------
# primitives over UFs (symbolic) -- the reference models import the same functions

def _bv(elems):
    return bv_of_elems(elems)


def _ed_funcs(c, cipher, klen, bs):
    f = c.uf("E_%s_%d" % (cipher, klen), z3.BitVecSort(8 * klen), z3.BitVecSort(8 * bs), z3.BitVecSort(8 * bs))
    g = c.uf("D_%s_%d" % (cipher, klen), z3.BitVecSort(8 * klen), z3.BitVecSort(8 * bs), z3.BitVecSort(8 * bs))
    return f, g


def _ed_state(c):
    st = getattr(c, '_ed_state', None)
    if st is None:
        st = c._ed_state = dict(E=[], D=[], e_used=False, d_used=False)
    return st


def E(cipher, key, block):
    """block cipher encryption of one block; key/block: element lists.
    Bijectivity per key is instantiated lazily: D(k,E(k,x)) = x facts are only added once the path
    applies D at all (and symmetrically), so encrypt-only modes carry no axioms."""
    c = ctx()
    bs = len(block)
    f, g = _ed_funcs(c, cipher, len(key), bs)
    k, x = _bv(key), _bv(block)
    x = z3.simplify(x)
    # E(k, D(k, y)) rewrites to y
    if z3.is_app(x) and x.decl().eq(g) and x.arg(0).eq(z3.simplify(k)):
        stub_uses.add("E_%s" % cipher)
        return elems_of_bv(x.arg(1), bs)
    y = f(k, x)
    st = _ed_state(c)
    st['e_used'] = True
    if st['d_used']:
        c.axiom(('ED', y.get_id()), g(k, y) == x)
    else:
        st['E'].append((g, k, x, y))
    if not getattr(st, 'flushedD', False) and st['D']:
        for ff, kk, yy, xx in st['D']:
            c.axiom(('DE', xx.get_id()), ff(kk, xx) == yy)
        st['D'] = []
    stub_uses.add("E_%s" % cipher)
    return elems_of_bv(y, bs)


def D(cipher, key, block):
    c = ctx()
    bs = len(block)
    f, g = _ed_funcs(c, cipher, len(key), bs)
    k, y = _bv(key), _bv(block)
    y = z3.simplify(y)
    # D(k, E(k, x)) rewrites to x
    if z3.is_app(y) and y.decl().eq(f) and y.arg(0).eq(z3.simplify(k)):
        stub_uses.add("D_%s" % cipher)
        return elems_of_bv(y.arg(1), bs)
    x = g(k, y)
    st = _ed_state(c)
    st['d_used'] = True
    if st['e_used']:
        c.axiom(('DE', x.get_id()), f(k, x) == y)
    else:
        st['D'].append((f, k, y, x))
    if st['E']:
        for gg, kk, xx, yy in st['E']:
            c.axiom(('ED', yy.get_id()), gg(kk, yy) == xx)
        st['E'] = []
    stub_uses.add("D_%s" % cipher)
    return elems_of_bv(x, bs)


def GMUL(x, h):
    """GF(2^128) product of SP 800-38D (uninterpreted)."""
    c = ctx()
    f = c.uf("GMUL", z3.BitVecSort(128), z3.BitVecSort(128), z3.BitVecSort(128))
    stub_uses.add("GMUL")
    return elems_of_bv(f(_bv(x), _bv(h)), 16)


def HASH(name, msg, outlen, *params):
    """Whole-message hash as a UF per (name, params, message length)."""
    c = ctx()
    pn = "_".join(str(p) for p in params)
    stub_uses.add("H_%s" % name)
    if len(msg) == 0:
        v = z3.BitVec("H_%s_%s_empty_%d" % (name, pn, outlen), 8 * outlen)
        return elems_of_bv(v, outlen)
    f = c.uf("H_%s_%s_%d_%d" % (name, pn, len(msg), outlen), z3.BitVecSort(8 * len(msg)),
             z3.BitVecSort(8 * outlen))
    return elems_of_bv(f(_bv(msg)), outlen)


def UF(name, ins, outlen):
    """generic UF over a list of element lists -> outlen elements"""
    c = ctx()
    stub_uses.add(name)
    ins = [i for i in ins]
    sorts = [z3.BitVecSort(8 * len(i)) for i in ins if len(i)]
    nm = "%s_%s_%d" % (name, "_".join(str(len(i)) for i in ins), outlen)
    if not sorts:
        return elems_of_bv(z3.BitVec(nm, 8 * outlen), outlen)
    f = c.uf(nm, *(sorts + [z3.BitVecSort(8 * outlen)]))
    return elems_of_bv(f(*[_bv(i) for i in ins if len(i)]), outlen)


def sym_pow(b, e, m):
    if not core.is_sym(b) and not core.is_sym(e) and not core.is_sym(m):
        return pow(b, e, m) if m is not None else pow(b, e)
    hook = globals().get('POW_HOOK')
    if hook is not None:
        return hook(b, e, m)
    if m is None and isinstance(e, int):
        return SymInt.__pow__(b, e)
    raise Inconclusive("pow with symbolic operands and no MODEXP hook")


POW_HOOK = None
CIPHER_OVERRIDE = None

# --------------------------------------------------------------------------------------------
# block ciphers

ERR_NULL, ERR_MEMORY, ERR_NOT_ENOUGH_DATA, ERR_KEY_SIZE = 1, 2, 3, 6
ERR_NONCE_SIZE, ERR_NR_ROUNDS, ERR_DIGEST_SIZE, ERR_MAX_DATA, ERR_MAX_OFFSET = 7, 8, 9, 10, 11
ERR_BLOCK_SIZE, ERR_TAG_SIZE, ERR_VALUE = 12, 13, 14


class BlockBase(object):
    def __init__(self, name, block_len, key):
        self.name = name
        self.block_len = block_len
        self.key = list(key)
        self.alive = True

    def enc(self, block):
        if CIPHER_OVERRIDE is not None:
            return CIPHER_OVERRIDE(self.name, self.key, block, False)
        return E(self.name, self.key, block)

    def dec(self, block):
        if CIPHER_OVERRIDE is not None:
            return CIPHER_OVERRIDE(self.name, self.key, block, True)
        return D(self.name, self.key, block)


def _block_lib(prefix, name, block_len, key_ok):
    class Lib(object):
        pass
    lib = Lib()

    def start(key, key_len, out, *extra):
        key_len = operator.index(key_len)
        if not key_ok(key_len):
            return ERR_KEY_SIZE
        out.set(BlockBase(name, block_len, rd(key, key_len)))
        return 0

    def encrypt(state, inp, outp, n):
        n = operator.index(n)
        if n % block_len:
            return ERR_NOT_ENOUGH_DATA
        data = rd(inp, n)
        res = []
        for i in range(0, n, block_len):
            res.extend(state.enc(data[i:i + block_len]))
        wr(outp, res)
        return 0

    def decrypt(state, inp, outp, n):
        n = operator.index(n)
        if n % block_len:
            return ERR_NOT_ENOUGH_DATA
        data = rd(inp, n)
        res = []
        for i in range(0, n, block_len):
            res.extend(state.dec(data[i:i + block_len]))
        wr(outp, res)
        return 0

    def stop(state):
        if state is None:
            return ERR_NULL
        state.alive = False
        return 0
    setattr(lib, prefix + "_start_operation", start)
    setattr(lib, prefix + "_encrypt", encrypt)
    setattr(lib, prefix + "_decrypt", decrypt)
    setattr(lib, prefix + "_stop_operation", stop)
    return lib


register("Crypto.Cipher._raw_aes")(lambda: _block_lib("AES", "AES", 16, lambda n: n in (16, 24, 32)))
register("Crypto.Cipher._raw_des")(lambda: _block_lib("DES", "DES", 8, lambda n: n == 8))
register("Crypto.Cipher._raw_des3")(lambda: _block_lib("DES3", "DES3", 8, lambda n: n in (16, 24)))
register("Crypto.Cipher._raw_blowfish")(lambda: _block_lib("Blowfish", "BF", 8, lambda n: 4 <= n <= 56))
register("Crypto.Cipher._raw_cast")(lambda: _block_lib("CAST", "CAST", 8, lambda n: 5 <= n <= 16))


def _arc2():
    lib = _block_lib("ARC2", "ARC2", 8, lambda n: 5 <= n <= 128)
    inner = lib.ARC2_start_operation

    def start(key, key_len, eff, out):
        eff = operator.index(eff)
        if not 40 <= eff <= 1024:
            return ERR_KEY_SIZE
        r = inner(key, key_len, out)
        if r == 0:
            out.vp._v.name = "ARC2e%d" % eff
        return r
    lib.ARC2_start_operation = start
    return lib


register("Crypto.Cipher._raw_arc2")(_arc2)


@register("Crypto.Util._cpuid_c")
class CpuId(object):
    def have_aes_ni(self):
        return 0

    def have_clmul(self):
        return 0


@register("Crypto.Util._strxor")
class StrXor(object):
    def strxor(self, a, b, out, n):
        n = operator.index(n)
        wr(out, xor_elems(rd(a, n), rd(b, n)))

    def strxor_c(self, a, c, out, n):
        n = operator.index(n)
        cb = int_to_byte(c)
        wr(out, xor_elems(rd(a, n), [cb] * n))


# --------------------------------------------------------------------------------------------
# modes of operation (contract models mirroring src/raw_*.c)

@register("Crypto.Cipher._raw_ecb")
class RawEcb(object):
    def ECB_start_operation(self, cipher, out):
        if cipher is None:
            return ERR_NULL
        out.set(dict(cipher=cipher))
        return 0

    def ECB_encrypt(self, st, inp, outp, n):
        c = st['cipher']
        n = operator.index(n)
        if n % c.block_len:
            return ERR_NOT_ENOUGH_DATA
        data = rd(inp, n)
        res = []
        for i in range(0, n, c.block_len):
            res.extend(c.enc(data[i:i + c.block_len]))
        wr(outp, res)
        return 0

    def ECB_decrypt(self, st, inp, outp, n):
        c = st['cipher']
        n = operator.index(n)
        if n % c.block_len:
            return ERR_NOT_ENOUGH_DATA
        data = rd(inp, n)
        res = []
        for i in range(0, n, c.block_len):
            res.extend(c.dec(data[i:i + c.block_len]))
        wr(outp, res)
        return 0

    def ECB_stop_operation(self, st):
        return 0


@register("Crypto.Cipher._raw_cbc")
class RawCbc(object):
    def CBC_start_operation(self, cipher, iv, iv_len, out):
        if cipher is None:
            return ERR_NULL
        iv_len = operator.index(iv_len)
        if iv_len != cipher.block_len:
            return (1 << 16) | 1
        out.set(dict(cipher=cipher, iv=rd(iv, iv_len)))
        return 0

    def CBC_encrypt(self, st, inp, outp, n):
        c = st['cipher']
        n = operator.index(n)
        bl = c.block_len
        if n % bl:
            return ERR_NOT_ENOUGH_DATA
        data = rd(inp, n)
        res = []
        iv = st['iv']
        for i in range(0, n, bl):
            iv = c.enc(xor_elems(data[i:i + bl], iv))
            res.extend(iv)
        st['iv'] = iv
        wr(outp, res)
        return 0

    def CBC_decrypt(self, st, inp, outp, n):
        c = st['cipher']
        n = operator.index(n)
        bl = c.block_len
        if n % bl:
            return ERR_NOT_ENOUGH_DATA
        data = rd(inp, n)
        res = []
        iv = st['iv']
        for i in range(0, n, bl):
            blk = data[i:i + bl]
            res.extend(xor_elems(c.dec(blk), iv))
            iv = blk
        st['iv'] = iv
        wr(outp, res)
        return 0

    def CBC_stop_operation(self, st):
        return 0


@register("Crypto.Cipher._raw_cfb")
class RawCfb(object):
    def CFB_start_operation(self, cipher, iv, iv_len, seg, out):
        if cipher is None:
            return ERR_NULL
        iv_len = operator.index(iv_len)
        seg = operator.index(seg)
        if iv_len != cipher.block_len:
            return (2 << 16) | 1
        if seg == 0 or seg > cipher.block_len:
            return (2 << 16) | 2
        ivb = rd(iv, iv_len)
        st = dict(cipher=cipher, seg=seg, used=0, ks=cipher.enc(ivb),
                  next_iv=ivb[seg:] + [0] * seg)
        out.set(st)
        return 0

    def _tr(self, st, inp, outp, n, decrypt):
        c = st['cipher']
        bl = c.block_len
        seg = st['seg']
        n = operator.index(n)
        data = rd(inp, n)
        res = []
        pos = 0
        while pos < n:
            if st['used'] == seg:
                st['ks'] = c.enc(st['next_iv'])
                st['next_iv'] = st['next_iv'][seg:] + [0] * seg
                st['used'] = 0
            use = min(seg - st['used'], n - pos)
            chunk = data[pos:pos + use]
            o = xor_elems(chunk, st['ks'][st['used']:st['used'] + use])
            ct = chunk if decrypt else o
            at = bl - (seg - st['used'])
            st['next_iv'][at:at + use] = ct
            res.extend(o)
            pos += use
            st['used'] += use
        wr(outp, res)
        return 0

    def CFB_encrypt(self, st, inp, outp, n):
        return self._tr(st, inp, outp, n, False)

    def CFB_decrypt(self, st, inp, outp, n):
        return self._tr(st, inp, outp, n, True)

    def CFB_stop_operation(self, st):
        return 0


@register("Crypto.Cipher._raw_ofb")
class RawOfb(object):
    def OFB_start_operation(self, cipher, iv, iv_len, out):
        if cipher is None:
            return ERR_NULL
        iv_len = operator.index(iv_len)
        if cipher.block_len > 16:
            return ERR_BLOCK_SIZE
        if iv_len != cipher.block_len:
            return (3 << 16) | 1
        out.set(dict(cipher=cipher, ks=rd(iv, iv_len), used=cipher.block_len))
        return 0

    def OFB_encrypt(self, st, inp, outp, n):
        c = st['cipher']
        bl = c.block_len
        n = operator.index(n)
        data = rd(inp, n)
        res = []
        pos = 0
        while pos < n:
            if st['used'] == bl:
                st['ks'] = c.enc(st['ks'])
                st['used'] = 0
            use = min(n - pos, bl - st['used'])
            res.extend(xor_elems(data[pos:pos + use], st['ks'][st['used']:st['used'] + use]))
            pos += use
            st['used'] += use
        wr(outp, res)
        return 0

    OFB_decrypt = OFB_encrypt

    def OFB_stop_operation(self, st):
        return 0


ERR_CTR_COUNTER_BLOCK_LEN = (6 << 16) | 1
ERR_CTR_REPEATED_KEY_STREAM = (6 << 16) | 2


@register("Crypto.Cipher._raw_ctr")
class RawCtr(object):
    """Contract: keystream block i = E(prefix || (ctr0 + i mod 2^(8*counter_len)) || suffix);
    ERR_CTR_REPEATED_KEY_STREAM once more than block_len * 2^(8*counter_len) bytes were requested
    (never for a 16-byte counter).  src/raw_ctr.c is checked against this contract by LLSYM (C11)."""

    def CTR_start_operation(self, cipher, icb, icb_len, prefix_len, counter_len, little, out):
        if cipher is None:
            return ERR_NULL
        icb_len = operator.index(icb_len)
        prefix_len = operator.index(prefix_len)
        counter_len = operator.index(counter_len)
        bl = cipher.block_len
        if bl != icb_len or counter_len == 0 or counter_len > bl or bl < prefix_len + counter_len:
            return ERR_CTR_COUNTER_BLOCK_LEN
        blk = rd(icb, icb_len)
        ctr = blk[prefix_len:prefix_len + counter_len]
        st = dict(cipher=cipher, prefix=blk[:prefix_len], suffix=blk[prefix_len + counter_len:],
                  clen=counter_len, little=bool(little), nblocks=0, used=bl, ks=None,
                  ctr0=core.int_from_bytes(ctr, 'little' if little else 'big'), total=0,
                  ctr0_elems=ctr)
        out.set(st)
        return 0

    def _block(self, st, i):
        cl = st['clen']
        if i == 0:
            cb = st['ctr0_elems']
        else:
            v = (st['ctr0'] + i) & ((1 << (8 * cl)) - 1)
            if isinstance(v, int):
                cb = list(v.to_bytes(cl, 'little' if st['little'] else 'big'))
            else:
                cb = v.to_bytes(cl, 'little' if st['little'] else 'big').b
        return st['cipher'].enc(st['prefix'] + cb + st['suffix'])

    def CTR_encrypt(self, st, inp, outp, n):
        c = st['cipher']
        bl = c.block_len
        n = operator.index(n)
        data = rd(inp, n)
        res = []
        pos = 0
        while pos < n:
            if st['used'] == bl:
                st['ks'] = self._block(st, st['nblocks'])
                st['nblocks'] += 1
                st['used'] = 0
            use = min(n - pos, bl - st['used'])
            res.extend(xor_elems(data[pos:pos + use], st['ks'][st['used']:st['used'] + use]))
            pos += use
            st['used'] += use
        wr(outp, res)
        st['total'] += n
        if st['clen'] < 16 and st['total'] > (bl << (8 * st['clen'])):
            return ERR_CTR_REPEATED_KEY_STREAM
        if st['total'] >= 1 << 128:
            return ERR_CTR_REPEATED_KEY_STREAM
        return 0

    CTR_decrypt = CTR_encrypt

    def CTR_stop_operation(self, st):
        return 0


class _Ghash(object):
    def __init__(self, postfix):
        setattr(self, "ghash_expand_" + postfix, self._expand)
        setattr(self, "ghash_" + postfix, self._ghash)
        setattr(self, "ghash_destroy_" + postfix, self._destroy)

    def _expand(self, h, out):
        out.set(dict(h=rd(h, 16)))
        return 0

    def _ghash(self, y_out, data, n, y_in, exp):
        n = operator.index(n)
        if n % 16:
            return ERR_NOT_ENOUGH_DATA
        y = rd(y_in, 16)
        d = rd(data, n)
        for i in range(0, n, 16):
            y = GMUL(xor_elems(y, d[i:i + 16]), exp['h'])
        wr(y_out, y)
        return 0

    def _destroy(self, exp):
        return 0


register("Crypto.Hash._ghash_portable")(lambda: _Ghash("portable"))
register("Crypto.Hash._ghash_clmul")(lambda: _Ghash("clmul"))


# --------------------------------------------------------------------------------------------
# hashes: whole-message UF per algorithm (compression functions are outside every glue claim)

class _HashState(object):
    def __init__(self, name, params=()):
        self.name = name
        self.params = tuple(params)
        self.data = []
        self.key = None
        self.key_obj = None

    def clone(self):
        s = _HashState(self.name, self.params)
        s.data = list(self.data)
        s.key = self.key
        s.key_obj = self.key_obj
        return s


def _md_lib(prefix, name, digest_size):
    class Lib(object):
        pass
    lib = Lib()

    def init(out):
        out.set(_HashState(name))
        return 0

    def destroy(st):
        return 0

    def update(st, buf, n):
        st.data.extend(rd(buf, n))
        return 0

    def digest(st, out, dsize=None):
        if dsize is not None and operator.index(dsize) != digest_size:
            return ERR_DIGEST_SIZE
        wr(out, HASH(name, st.data, digest_size))
        return 0

    def copy(src, dst):
        dst.data = list(src.data)
        return 0

    def assist(inner, outer, first, result, iterations, dsize=None):
        # PBKDF2 inner loop contract: U_1 = first; U_{i+1} = H(outer || H(inner || U_i)); result = xor U_i
        it = operator.index(iterations)
        if it == 0:
            return ERR_NR_ROUNDS if hasattr(lib, '_nr') else 8
        u = rd(first, digest_size)
        acc = list(u)
        for _ in range(1, it):
            t = HASH(name, inner.data + u, digest_size)
            u = HASH(name, outer.data + t, digest_size)
            acc = xor_elems(acc, u)
        wr(result, acc)
        return 0
    setattr(lib, prefix + "_init", init)
    setattr(lib, prefix + "_destroy", destroy)
    setattr(lib, prefix + "_update", update)
    setattr(lib, prefix + "_digest", digest)
    setattr(lib, prefix + "_copy", copy)
    setattr(lib, prefix + "_pbkdf2_hmac_assist", assist)
    return lib


for _p, _n, _d, _m in (("SHA1", "SHA1", 20, "Crypto.Hash._SHA1"), ("SHA224", "SHA224", 28, "Crypto.Hash._SHA224"),
                       ("SHA256", "SHA256", 32, "Crypto.Hash._SHA256"), ("SHA384", "SHA384", 48, "Crypto.Hash._SHA384"),
                       ("MD5", "MD5", 16, "Crypto.Hash._MD5"), ("md4", "MD4", 16, "Crypto.Hash._MD4"),
                       ("md2", "MD2", 16, "Crypto.Hash._MD2"), ("ripemd160", "RIPEMD160", 20, "Crypto.Hash._RIPEMD160")):
    register(_m)((lambda p, n, d: (lambda: _md_lib(p, n, d)))(_p, _n, _d))


def _sha512_lib():
    lib = _md_lib("SHA512", "SHA512", 64)
    # SHA512_init takes (state**, digest_size) in this code base; SHA512_digest takes a size too
    def init(out, dsize=64):
        d = operator.index(dsize)
        st = _HashState("SHA512t%d" % (8 * d) if d != 64 else "SHA512")
        st.dsize = d
        out.set(st)
        return 0

    def digest(st, out, dsize=None):
        d = getattr(st, 'dsize', 64)
        if dsize is not None and operator.index(dsize) != d:
            return ERR_DIGEST_SIZE
        wr(out, HASH(st.name, st.data, d))
        return 0
    lib.SHA512_init = init
    lib.SHA512_digest = digest
    return lib


register("Crypto.Hash._SHA512")(_sha512_lib)


def _blake2_lib(prefix, name, maxd, maxk):
    class Lib(object):
        pass
    lib = Lib()

    def init(out, key, key_len, digest_bytes):
        key_len = operator.index(key_len)
        digest_bytes = operator.index(digest_bytes)
        if key_len > maxk:
            return ERR_KEY_SIZE
        if digest_bytes == 0 or digest_bytes > maxd:
            return ERR_DIGEST_SIZE
        st = _HashState(name, (digest_bytes,))
        st.key = rd(key, key_len)
        st.key_obj = key
        out.set(st)
        return 0

    def destroy(st):
        return 0

    def update(st, buf, n):
        st.data.extend(rd(buf, n))
        return 0

    def digest(st, out):
        d = st.params[0]
        res = UF("H_%s_%d" % (name, d), [st.key, st.data], d)
        wr(out, res + [0] * (maxd - d))
        # the constant-time comparison idiom: a MAC under a fresh random key is assumed
        # collision-free on the two compared strings (stated assumption)
        if st.key and getattr(st.key_obj, 'inj', None) == 'random':
            out.inj = (st.key_obj, list(st.data), d)
        return 0

    def copy(src, dst):
        dst.data = list(src.data)
        dst.key = src.key
        dst.key_obj = src.key_obj
        dst.params = src.params
        return 0
    setattr(lib, prefix + "_init", init)
    setattr(lib, prefix + "_destroy", destroy)
    setattr(lib, prefix + "_update", update)
    setattr(lib, prefix + "_digest", digest)
    setattr(lib, prefix + "_copy", copy)
    return lib


register("Crypto.Hash._BLAKE2s")(lambda: _blake2_lib("blake2s", "BLAKE2s", 32, 32))
register("Crypto.Hash._BLAKE2b")(lambda: _blake2_lib("blake2b", "BLAKE2b", 64, 64))


# --------------------------------------------------------------------------------------------

class _Missing(object):
    def __init__(self, name):
        self._name = name

    def __getattr__(self, a):
        if a.startswith('__'):
            raise AttributeError(a)

        def f(*args, **kw):
            raise Inconclusive("no native model for %s.%s" % (self._name, a))
        return f


MODEXP_MODEL = [False]


class ModexpLib(object):
    """contract of src/modexp.c: every operand buffer holds exactly `len` big-endian bytes (the C reads `len` bytes of
    each and ignores / overruns anything else), the modulus is odd; result = the exact power / product (through
    natives.sym_pow, i.e. the reduced-width exact shim when operands are symbolic)"""

    def _operands(self, bufs, n):
        vals = []
        for nm, b in bufs:
            e = to_elems(b)
            if len(e) != n:
                raise ContractBreach("monty: the %s buffer has %d bytes but len = %d was passed (the C reads exactly len bytes)" % (nm, len(e), n))
            vals.append(core.int_from_bytes(e, 'big'))
        return vals

    def monty_pow(self, out, base, exp, modulus, n, seed):
        n = operator.index(n)
        b, e, m = self._operands((('base', base), ('exponent', exp), ('modulus', modulus)), n)
        odd = (m & 1) == 1
        if not odd:
            return 17
        r = sym_pow(b, e, m)
        wr(out, list(r.to_bytes(n, 'big')) if isinstance(r, int) else r.to_bytes(n, 'big').b)
        return 0

    def monty_multiply(self, out, t1, t2, modulus, n):
        n = operator.index(n)
        a, b, m = self._operands((('term1', t1), ('term2', t2), ('modulus', modulus)), n)
        odd = (m & 1) == 1
        if not odd:
            return 17
        r = (a * b) % m
        wr(out, list(r.to_bytes(n, 'big')) if isinstance(r, int) else r.to_bytes(n, 'big').b)
        return 0


_lib_cache = {}


def load_pycryptodome_raw_lib(name, cdecl):
    lib_loads.append(name)
    if name == "Crypto.Math._modexp":
        if MODEXP_MODEL[0]:
            return ModexpLib()      # C14 custom_glue: contract model of monty_pow / monty_multiply (harness-local)
        # force the pure-Python integer back-end (IntegerNative operates on SymInt); see C14/C16
        raise OSError("PYSYM: custom-C integer back-end disabled")
    if name in _lib_cache:
        return _lib_cache[name]
    f = LIBS.get(name)
    lib = f() if f is not None else _Missing(name)
    _lib_cache[name] = lib
    return lib


def install():
    import importlib
    import os
    os.environ["PYCRYPTODOME_DISABLE_GMP"] = "1"
    from . import ecnat      # noqa: F401  (registers the EC native models)
    m = importlib.import_module("Crypto.Util._raw_api")
    m.load_pycryptodome_raw_lib = load_pycryptodome_raw_lib
    m.c_uint8_ptr = c_uint8_ptr
    m.create_string_buffer = create_string_buffer
    m.get_raw_buffer = get_raw_buffer
    m.get_c_string = get_c_string
    m.VoidPointer = FakeVoidPointer
    m.c_size_t = _ident
    m.c_ulong = _c_ulong
    m.c_ulonglong = _ident
    m.c_uint = _ident
    m.c_ubyte = c_ubyte
    m.null_pointer = None
    m.backend = "pysym"
    import atexit
    atexit.register(lambda: setattr(m.SmartPointer, '__del__', lambda self: None))


# --------------------------------------------------------------------------------------------
# ChaCha20 / Poly1305 (contracts; src/chacha20.c is executed for real by LLSYM in C02/C11)

def chacha_tail(nonce, counter):
    """state words 12..15 as 16 bytes"""
    if len(nonce) == 12:
        cb = counter.to_bytes(4, 'little') if isinstance(counter, int) else counter.to_bytes(4, 'little').b
        return list(cb) + list(nonce)
    cb = counter.to_bytes(8, 'little') if isinstance(counter, int) else counter.to_bytes(8, 'little').b
    return list(cb) + list(nonce)


def CHACHA_BLOCK(key, tail):
    return UF("CHACHA20_BLOCK", [key, tail], 64)


_CHACHA_STICKY = None


def _chacha_sticky():
    """the contract model follows the C source: does chacha20_core() keep the state exhausted after ERR_MAX_DATA?
    (read from /repo/src/chacha20.c so that the model never claims more than the code does; the real C
    is decided by LLSYM in C11/chacha_seq)"""
    global _CHACHA_STICKY
    if _CHACHA_STICKY is None:
        import os
        import re
        try:
            src = open(os.path.join(os.environ.get("VERIF_REPO", "/repo"), "src", "chacha20.c")).read()
            core_src = src[src.index("static int chacha20_core"):src.index("EXPORT_SYM int chacha20_encrypt")]
            _CHACHA_STICKY = bool(re.search(r"usedKeyStream\s*=\s*sizeof", core_src))
        except Exception:
            _CHACHA_STICKY = False
    return _CHACHA_STICKY


@register("Crypto.Cipher._chacha20")
class ChaCha20Lib(object):
    def chacha20_init(self, out, key, key_len, nonce, nonce_len):
        key_len = operator.index(key_len)
        nonce_len = operator.index(nonce_len)
        if key is None or key_len != 32:
            return ERR_KEY_SIZE
        if nonce_len not in (8, 12, 16):
            return ERR_NONCE_SIZE
        out.set(dict(key=rd(key, 32), nonce=rd(nonce, nonce_len), ctr=0, used=64, ks=None))
        return 0

    def chacha20_destroy(self, st):
        return 0

    def _core(self, st):
        st['ks'] = CHACHA_BLOCK(st['key'], chacha_tail(st['nonce'], st['ctr']))
        st['used'] = 0
        lim = 1 << (32 if len(st['nonce']) == 12 else 64)
        st['ctr'] = st['ctr'] + 1
        wrapped = (st['ctr'] == lim)
        if wrapped:         # may fork when the counter is symbolic
            if _chacha_sticky():
                st['ctr'] = lim - 1        # chacha20.c: the state stays exhausted (no restart from block 0)
                st['used'] = 64
            else:
                st['ctr'] = 0
            return ERR_MAX_DATA
        return 0

    def chacha20_encrypt(self, st, inp, outp, n):
        if len(st['nonce']) not in (8, 12):
            return ERR_NONCE_SIZE
        n = operator.index(n)
        data = rd(inp, n)
        res = []
        pos = 0
        while pos < n:
            if st['used'] == 64:
                r = self._core(st)
                if r:
                    wr(outp, res)
                    return r
            use = min(n - pos, 64 - st['used'])
            res.extend(xor_elems(data[pos:pos + use], st['ks'][st['used']:st['used'] + use]))
            pos += use
            st['used'] += use
        wr(outp, res)
        return 0

    def chacha20_seek(self, st, block_high, block_low, offset):
        if len(st['nonce']) not in (8, 12):
            return ERR_NONCE_SIZE
        ok = (offset < 64)
        if not ok:
            return ERR_MAX_OFFSET
        # C truncates the unsigned long arguments to 32 bits
        lo = block_low & 0xFFFFFFFF
        if len(st['nonce']) == 8:
            st['ctr'] = ((block_high & 0xFFFFFFFF) << 32) | lo
        else:
            if block_high > 0:
                return ERR_MAX_OFFSET
            st['ctr'] = lo
        r = self._core(st)
        if r:
            return r
        st['used'] = operator.index(offset)
        return 0

    def hchacha20(self, key, nonce16, subkey):
        wr(subkey, UF("HCHACHA20", [rd(key, 32), rd(nonce16, 16)], 32))
        return 0


@register("Crypto.Hash._poly1305")
class Poly1305Lib(object):
    def poly1305_init(self, out, r, r_len, s, s_len):
        if operator.index(r_len) != 16 or operator.index(s_len) != 16:
            return ERR_KEY_SIZE
        out.set(dict(r=rd(r, 16), s=rd(s, 16), data=[]))
        return 0

    def poly1305_destroy(self, st):
        return 0

    def poly1305_update(self, st, inp, n):
        st['data'].extend(rd(inp, n))
        return 0

    def poly1305_digest(self, st, out, n):
        if operator.index(n) != 16:
            return ERR_DIGEST_SIZE
        wr(out, UF("POLY1305", [st['r'], st['s'], st['data']], 16))
        return 0


# --------------------------------------------------------------------------------------------
# OCB (contract mirroring src/raw_ocb.c; the real C is executed by LLSYM in the thorough tier)

def _dbl16(x):
    v = core.int_from_bytes(x, 'big')
    r = ((v << 1) & ((1 << 128) - 1)) ^ ((v >> 127) * 0x87)
    if isinstance(r, int):
        return list(r.to_bytes(16, 'big'))
    return r.to_bytes(16, 'big').b


def _ntz(i):
    n = 0
    while i & 1 == 0:
        n += 1
        i >>= 1
    return n


@register("Crypto.Cipher._raw_ocb")
class RawOcb(object):
    def OCB_start_operation(self, cipher, offset_0, n, out):
        if cipher is None:
            return ERR_NULL
        if cipher.block_len != 16 or operator.index(n) != 16:
            return ERR_BLOCK_SIZE
        lstar = cipher.enc([0] * 16)
        ldollar = _dbl16(lstar)
        L = [_dbl16(ldollar)]
        for _ in range(12):
            L.append(_dbl16(L[-1]))
        out.set(dict(cipher=cipher, lstar=lstar, ldollar=ldollar, L=L, ca=1, cp=1,
                     off_a=[0] * 16, off_p=rd(offset_0, 16), sum=[0] * 16, cks=[0] * 16))
        return 0

    def _tr(self, st, inp, outp, n, dec):
        c = st['cipher']
        n = operator.index(n)
        data = rd(inp, n)
        res = []
        pos = 0
        while n - pos >= 16:
            st['off_p'] = xor_elems(st['off_p'], st['L'][_ntz(st['cp'])])
            st['cp'] += 1
            pre = xor_elems(data[pos:pos + 16], st['off_p'])
            o = xor_elems(c.dec(pre) if dec else c.enc(pre), st['off_p'])
            st['cks'] = xor_elems(st['cks'], o if dec else data[pos:pos + 16])
            res.extend(o)
            pos += 16
        r = n - pos
        if r > 0:
            st['off_p'] = xor_elems(st['off_p'], st['lstar'])
            pad = c.enc(st['off_p'])
            o = xor_elems(data[pos:], pad[:r])
            p = o if dec else data[pos:]
            st['cks'] = xor_elems(st['cks'], list(p) + [0x80] + [0] * (15 - r))
            res.extend(o)
        wr(outp, res)
        return 0

    def OCB_encrypt(self, st, inp, outp, n):
        return self._tr(st, inp, outp, n, False)

    def OCB_decrypt(self, st, inp, outp, n):
        return self._tr(st, inp, outp, n, True)

    def OCB_update(self, st, inp, n):
        c = st['cipher']
        n = operator.index(n)
        data = rd(inp, n)
        pos = 0
        while n - pos >= 16:
            st['off_a'] = xor_elems(st['off_a'], st['L'][_ntz(st['ca'])])
            st['ca'] += 1
            st['sum'] = xor_elems(st['sum'], c.enc(xor_elems(data[pos:pos + 16], st['off_a'])))
            pos += 16
        r = n - pos
        if r > 0:
            pt = list(data[pos:]) + [0x80] + [0] * (15 - r)
            pt = xor_elems(xor_elems(pt, st['off_a']), st['lstar'])
            st['sum'] = xor_elems(st['sum'], c.enc(pt))
        return 0

    def OCB_digest(self, st, tag, n):
        if operator.index(n) != 16:
            return ERR_TAG_SIZE
        c = st['cipher']
        pt = xor_elems(xor_elems(st['cks'], st['off_p']), st['ldollar'])
        wr(tag, xor_elems(c.enc(pt), st['sum']))
        return 0

    def OCB_stop_operation(self, st):
        return 0


# --------------------------------------------------------------------------------------------
# Keccak sponge (contract over a whole-message UF; src/keccak.c is executed by LLSYM under C03/C09)

KECCAK_CHUNK = 64


def keccak_stream(cap, rounds, padding, msg, start, n):
    """bytes [start, start+n) of the sponge output for (capacity, rounds, padding byte, message):
    chunk i of KECCAK_CHUNK bytes = UF_i(msg)  => reads are prefix-consistent by construction"""
    out = []
    if n == 0:
        return out
    first, last = start // KECCAK_CHUNK, (start + n - 1) // KECCAK_CHUNK
    chunks = []
    for i in range(first, last + 1):
        chunks.extend(UF("KECCAK_c%d_r%d_p%02x_blk%d" % (cap, rounds, padding, i), [msg], KECCAK_CHUNK))
    off = start - first * KECCAK_CHUNK
    return chunks[off:off + n]


@register("Crypto.Hash._keccak")
class KeccakLib(object):
    def keccak_init(self, out, capacity_bytes, rounds):
        cap = operator.index(capacity_bytes)
        if cap >= 200:
            return ERR_DIGEST_SIZE
        r = operator.index(rounds)
        if r not in (12, 24):
            return ERR_NR_ROUNDS
        out.set(dict(cap=cap, rounds=r, data=[], squeezing=False, pos=0, padding=None))
        return 0

    def keccak_destroy(self, st):
        return 0

    def keccak_reset(self, st):
        st.update(data=[], squeezing=False, pos=0, padding=None)
        return 0

    def keccak_absorb(self, st, inp, n):
        if st['squeezing']:
            return 32
        st['data'].extend(rd(inp, n))
        return 0

    def keccak_squeeze(self, st, out, n, padding):
        n = operator.index(n)
        if not st['squeezing']:
            st['squeezing'] = True
            st['padding'] = operator.index(padding)
        wr(out, keccak_stream(st['cap'], st['rounds'], st['padding'], st['data'], st['pos'], n))
        st['pos'] += n
        return 0

    def keccak_digest(self, st, out, n, padding):
        n = operator.index(n)
        if 2 * n != st['cap']:
            return 32
        if st['squeezing']:
            wr(out, keccak_stream(st['cap'], st['rounds'], st['padding'], st['data'], st['pos'], n))
        else:
            wr(out, keccak_stream(st['cap'], st['rounds'], operator.index(padding), st['data'], 0, n))
        return 0

    def keccak_copy(self, src, dst):
        dst.update(cap=src['cap'], rounds=src['rounds'], data=list(src['data']), squeezing=src['squeezing'],
                   pos=src['pos'], padding=src['padding'])
        return 0


# --------------------------------------------------------------------------------------------
# C in the loop: modules served by the LLSYM machine (the real C from clang IR)

def _sym_kernel(cfile, stubs=None):
    from vlib.llsym import kern
    return kern.SymKernel(None, cfile, stubs)


llsym_events = []        # memory-safety events seen through bridged calls: (module, kind, detail)


def _note_events(K, module):
    for kind, detail, conds in K.memory_violations():
        llsym_events.append((module, kind, detail))
        raise Inconclusive("memory-safety event inside bridged C call %s: %s %s (reported by the kernel-level check)"
                           % (module, kind, detail))


@register("Crypto.Cipher._pkcs1_decode")
class Pkcs1DecodeLib(object):
    """src/pkcs1_decode.c executed symbolically; caller buffers are mapped with their real Python sizes"""

    def pkcs1_decode(self, em, em_len, sentinel, s_len, expected, output):
        K = _sym_kernel('pkcs1_decode.c')
        p_em = K.buf(to_elems(em), False, 'em')
        p_s = K.buf(to_elems(sentinel), False, 'sentinel')
        n_out = len(output)
        p_out = K.buf(to_elems(output), True, 'output')
        r = K.call('pkcs1_decode', p_em, em_len, p_s, s_len, expected, p_out)
        _note_events(K, 'pkcs1_decode')
        wr(output, K.read(p_out, n_out).b)
        return r

    def oaep_decode(self, em, em_len, lhash, h_len, db, db_len):
        K = _sym_kernel('pkcs1_decode.c')
        r = K.call('oaep_decode', K.buf(to_elems(em), False, 'em'), em_len, K.buf(to_elems(lhash), False, 'lHash'),
                   h_len, K.buf(to_elems(db), False, 'db'), db_len)
        _note_events(K, 'oaep_decode')
        return r


# --------------------------------------------------------------------------------------------
# scrypt ROMix / Salsa20 core / EKSBlowfish: uninterpreted (the cores are outside every glue claim)

@register("Crypto.Protocol._scrypt")
class ScryptLib(object):
    def scryptROMix(self, data_in, data_out, data_len, N, core):
        n = operator.index(data_len)
        nn = operator.index(N)
        wr(data_out, UF("SCRYPT_ROMIX_N%d" % nn, [rd(data_in, n)], n))
        return 0


@register("Crypto.Cipher._Salsa20")
class Salsa20Lib(object):
    def Salsa20_8_core(self, x, y, out):
        wr(out, UF("SALSA20_8_CORE", [rd(x, 64), rd(y, 64)], 64))
        return 0

    def Salsa20_stream_init(self, key, klen, nonce, nlen, out):
        klen, nlen = operator.index(klen), operator.index(nlen)
        if klen not in (16, 32):
            return ERR_KEY_SIZE
        if nlen != 8:
            return ERR_NONCE_SIZE
        out.set(dict(key=rd(key, klen), nonce=rd(nonce, nlen), pos=0))
        return 0

    def Salsa20_stream_destroy(self, st):
        return 0

    def Salsa20_stream_encrypt(self, st, inp, outp, n):
        n = operator.index(n)
        data = rd(inp, n)
        res = []
        for i in range(n):
            p = st['pos'] + i
            blk = UF("SALSA20_BLOCK", [st['key'], st['nonce'], list((p // 64).to_bytes(8, 'little'))], 64)
            res.append(xor_elems([data[i]], [blk[p % 64]])[0])
        st['pos'] += n
        wr(outp, res)
        return 0
