"""Native EC entry points (ec_ws_*, ed25519_*, ed448_*, curve25519_*, curve448_*) for PYSYM.

Concrete operands are computed exactly (textbook affine / Edwards / Montgomery-ladder formulas on
Python ints -- these are the definitions the C code is supposed to implement).  As soon as an operand
is symbolic the result is an application of uninterpreted functions of an ABSTRACT COMMUTATIVE GROUP:
    SMUL_c(k, P), ADD_c(P, Q), ONCURVE_c(P)
with exactly these facts instantiated per application (no quantifiers):
    ONCURVE(SMUL(k,P)), ONCURVE(ADD(P,Q)), ADD(P,Q) = ADD(Q,P),
    SMUL(a, SMUL(b, Q)) = SMUL(b, SMUL(a, Q))      (the Diffie-Hellman commutation)
The group law itself (src/ec_ws*.c, ed25519.c, ed448.c, curve25519.c, curve448.c, mont.c) is outside
every claim made through this model and is listed as such.
"""
import operator

import z3

from . import core, natives
from .core import SymInt, SymBool, ctx, Inconclusive
from .natives import rd, wr, register

SCALAR_BITS = 640


from vlib.models.ecref import (Curve, ED25519, ED448, X25519, X448, _inv, ws_on_curve, ws_add, ed_on_curve, ed_add,
                               generic_smul, mont_ladder)


# --------------------------------------------------------------------------------------------
# points

class Pt(object):
    """x, y: int or SymInt (None for the Montgomery point at infinity when concrete);
    inf: only for Montgomery points: bool or SymBool"""

    def __init__(self, curve, x, y, inf=False, smul=None):
        self.curve, self.x, self.y, self.inf, self.smul = curve, x, y, inf, smul
        self.alive = True

    def sym(self):
        return isinstance(self.x, SymInt) or isinstance(self.y, SymInt) or isinstance(self.inf, SymBool)

    def clone(self):
        return Pt(self.curve, self.x, self.y, self.inf, self.smul)

    def assign(self, o):
        self.x, self.y, self.inf, self.smul = o.x, o.y, o.inf, o.smul


def _cbv(v, bits):
    """int / SymInt (non-negative) -> BV of `bits` bits"""
    if isinstance(v, int):
        return z3.BitVecVal(v, bits)
    e = v.e
    if v.w > bits:
        return z3.Extract(bits - 1, 0, e)
    if v.w < bits:
        return z3.ZeroExt(bits - v.w, e)
    return e


def _sym_of_bv(e, bits):
    return SymInt.make(z3.ZeroExt(1, e), bits + 1, nn=True)


def _coords(pt):
    c = pt.curve
    bits = 8 * c.nbytes
    y = pt.y if pt.y is not None else 0
    return _cbv(pt.x if pt.x is not None else 0, bits), _cbv(y, bits)


def _ufs(c):
    k = ctx()
    bits = 8 * c.nbytes
    B = z3.BitVecSort(bits)
    S = z3.BitVecSort(SCALAR_BITS)
    n = c.name
    return dict(
        smulx=k.uf("SMULX_" + n, S, B, B, B), smuly=k.uf("SMULY_" + n, S, B, B, B),
        smulinf=k.uf("SMULINF_" + n, S, B, B, z3.BoolSort()),
        addx=k.uf("ADDX_" + n, B, B, B, B, B), addy=k.uf("ADDY_" + n, B, B, B, B, B),
        on=k.uf("ONCURVE_" + n, B, B, z3.BoolSort()))


def _on_curve_fact(c, xe, ye):
    k = ctx()
    f = _ufs(c)['on']
    k.axiom(('on', c.name, xe.get_id(), ye.get_id()), f(xe, ye))


def sym_smul(c, kv, pt):
    natives.stub_uses.add("SMUL_" + c.name)
    k = ctx()
    u = _ufs(c)
    kb = _cbv(kv, SCALAR_BITS)
    px, py = _coords(pt)
    bits = 8 * c.nbytes
    rx, ry = u['smulx'](kb, px, py), u['smuly'](kb, px, py)
    pv = z3.BitVecVal(c.p, bits)
    k.axiom(('rng', rx.get_id()), z3.And(z3.ULT(rx, pv), z3.ULT(ry, pv)))       # coordinates are reduced
    reg = getattr(k, '_smul_apps', None)
    if reg is None:
        reg = k._smul_apps = []
    reg.append((c.name, rx, kb, pt.clone()))
    if c.fam != 'mont':
        _on_curve_fact(c, rx, ry)
    # Diffie-Hellman commutation with the scalar that produced pt
    if pt.smul is not None:
        b, base = pt.smul
        qx, qy = _coords(base)
        ax, ay = u['smulx'](kb, qx, qy), u['smuly'](kb, qx, qy)
        if c.fam == 'mont':
            ay = z3.BitVecVal(0, bits)          # x-only points: the second coordinate slot is always 0
        ox, oy = u['smulx'](b, ax, ay), u['smuly'](b, ax, ay)
        k.axiom(('dh', rx.get_id()), z3.And(rx == ox, ry == oy) if c.fam != 'mont' else rx == ox)
        if c.fam == 'mont':
            k.axiom(('dhi', rx.get_id()), u['smulinf'](kb, px, py) == u['smulinf'](b, ax, ay))
    r = Pt(c, _sym_of_bv(rx, bits), _sym_of_bv(ry, bits) if c.fam != 'mont' else None,
           smul=(kb, pt.clone()))
    if c.fam == 'mont':
        r.inf = SymBool.make(u['smulinf'](kb, px, py))
    return r


def sym_add(c, P, Q):
    natives.stub_uses.add("PADD_" + c.name)
    k = ctx()
    u = _ufs(c)
    px, py = _coords(P)
    qx, qy = _coords(Q)
    bits = 8 * c.nbytes
    rx, ry = u['addx'](px, py, qx, qy), u['addy'](px, py, qx, qy)
    _on_curve_fact(c, rx, ry)
    pv = z3.BitVecVal(c.p, bits)
    k.axiom(('rng', rx.get_id()), z3.And(z3.ULT(rx, pv), z3.ULT(ry, pv)))
    k.axiom(('comm', rx.get_id()), z3.And(rx == u['addx'](qx, qy, px, py), ry == u['addy'](qx, qy, px, py)))
    return Pt(c, _sym_of_bv(rx, bits), _sym_of_bv(ry, bits))


def _recover_smul(c, x):
    """a point rebuilt from the coordinates of an earlier SMUL result keeps its provenance
    (needed for the Diffie-Hellman commutation fact after serialise/deserialise)"""
    if not isinstance(x, SymInt):
        return None
    t = z3.simplify(_cbv(x, 8 * c.nbytes))
    # 1. semantic match against the products built on this path (robust to re-encoding / masking)
    k = ctx()
    for cname, rx, kb, base in getattr(k, '_smul_apps', []):
        if cname != c.name:
            continue
        if t.eq(rx) or k._check(t != rx) == z3.unsat:
            return (kb, base.clone())
    try:
        if z3.is_app(t) and t.decl().name() == "SMULX_" + c.name and t.num_args() == 3:
            bits = 8 * c.nbytes
            base = Pt(c, _sym_or_int(t.arg(1), bits), _sym_or_int(t.arg(2), bits) if c.fam != 'mont' else None)
            return (t.arg(0), base)
    except Exception:
        return None
    return None


def _sym_or_int(e, bits):
    e = z3.simplify(e)
    if z3.is_bv_value(e):
        return e.as_long()
    return _sym_of_bv(e, bits)


def _scalar_value(kbuf, n):
    e = rd(kbuf, n)
    if 8 * len(e) > SCALAR_BITS:
        raise Inconclusive("scalar longer than %d bits" % SCALAR_BITS)
    return core.int_from_bytes(e, 'big')


def _write_coord(buf, v, n):
    if isinstance(v, int):
        wr(buf, list(v.to_bytes(n, 'big')))
    else:
        wr(buf, v.to_bytes(n, 'big').b)


ERR_NULL, ERR_EC_POINT, ERR_EC_CURVE, ERR_EC_PAI, ERR_VALUE, ERR_MODULUS = 1, 15, 16, 19, 14, 17


class _TwoCoordLib(object):
    """shared by Weierstrass and Edwards families"""

    def _curve_of(self, context):
        raise NotImplementedError

    def _zero(self, c):
        return (0, 0) if c.fam == 'ws' else (0, 1)

    def _on(self, c, x, y):
        return ws_on_curve(c, x, y) if c.fam == 'ws' else ed_on_curve(c, x, y)

    def _add(self, c):
        return (lambda P, Q: ws_add(c, P, Q)) if c.fam == 'ws' else (lambda P, Q: ed_add(c, P, Q))

    def new_point(self, out, xb, yb, n, context=None):
        c = self._curve_of(context)
        n = operator.index(n)
        if n != c.nbytes:
            return ERR_VALUE
        x = core.int_from_bytes(rd(xb, n), 'big')
        y = core.int_from_bytes(rd(yb, n), 'big')
        # None of the C constructors refuses a coordinate >= p: ed25519_new_point() converts to 25.5-bit limbs and
        # works modulo p; ec_ws_new_point() / ed448_new_point() go through mont_new_from_bytes(), whose Montgomery
        # conversion (or, for P-521, repeated subtraction) reduces modulo p.  A non-reduced coordinate therefore
        # denotes the reduced point; the range check is the Python layer's job (PublicKey/_point.py).
        if isinstance(x, int) and isinstance(y, int):
            x, y = x % c.p, y % c.p
            if not self._on(c, x, y):
                return ERR_EC_POINT
            out.set(Pt(c, x, y))
            return 0
        natives.stub_uses.add("ONCURVE_" + c.name)

        def red(v):
            if isinstance(v, int):
                return v % c.p
            w = 8 * n + 1
            e = _cbv(v, w)
            pv = z3.BitVecVal(c.p, w)
            # the Python layer range-checks before calling: when the path condition already gives v < p nothing is reduced
            # (keeps the 529-bit remainder of P-521 out of the terms)
            try:
                if ctx()._check(z3.UGE(e, pv)) == z3.unsat:
                    return v
            except Exception:
                pass
            times = ((1 << (8 * n)) - 1) // c.p
            if times <= 3:
                for _ in range(times):
                    e = z3.If(z3.UGE(e, pv), e - pv, e)
            else:
                e = z3.URem(e, pv)
            return SymInt.make(e, w, nn=True)
        x, y = red(x), red(y)
        ok = SymBool.make(_ufs(c)['on'](_cbv(x, 8 * n), _cbv(y, 8 * n)))
        if not ok:
            return ERR_EC_POINT
        out.set(Pt(c, x, y, smul=_recover_smul(c, x)))
        return 0

    def free_point(self, pt):
        if pt is not None:
            pt.alive = False

    def clone(self, out, src):
        out.set(src.clone())
        return 0

    def get_xy(self, xb, yb, n, pt):
        n = operator.index(n)
        if n != pt.curve.nbytes:
            return ERR_VALUE
        _write_coord(xb, pt.x, n)
        _write_coord(yb, pt.y, n)
        return 0

    def cmp(self, a, b):
        if a.curve is not b.curve:
            return ERR_EC_CURVE
        eq = core.sym_and(a.x == b.x, a.y == b.y)
        if isinstance(eq, SymBool):
            return SymInt.make(z3.If(eq.e, z3.BitVecVal(0, 3), z3.BitVecVal(1, 3)), 3, nn=True)
        return 0 if eq else 1

    def neg(self, pt):
        c = pt.curve
        if c.fam == 'ws':
            y = pt.y
            if isinstance(y, int):
                pt.y = (-y) % c.p
            else:
                e = _cbv(y, 8 * c.nbytes + 1)
                pt.y = SymInt.make(z3.If(e == 0, e, z3.BitVecVal(c.p, 8 * c.nbytes + 1) - e), 8 * c.nbytes + 1, nn=True)
        else:
            x = pt.x
            if isinstance(x, int):
                pt.x = (-x) % c.p
            else:
                e = _cbv(x, 8 * c.nbytes + 1)
                pt.x = SymInt.make(z3.If(e == 0, e, z3.BitVecVal(c.p, 8 * c.nbytes + 1) - e), 8 * c.nbytes + 1, nn=True)
        pt.smul = None
        if pt.sym():
            # the negative of a curve point is a curve point
            _on_curve_fact(c, _cbv(pt.x, 8 * c.nbytes), _cbv(pt.y, 8 * c.nbytes))
        return 0

    def add(self, a, b):
        c = a.curve
        if c is not b.curve:
            return ERR_EC_CURVE
        zero = self._zero(c)
        if not b.sym() and (b.x, b.y) == zero:
            return 0                                # P + O = P
        if not a.sym() and (a.x, a.y) == zero:
            a.assign(b.clone())                     # O + P = P
            return 0
        if a.sym() or b.sym():
            a.assign(sym_add(c, a, b))
        else:
            x, y = self._add(c)((a.x, a.y), (b.x, b.y))
            a.x, a.y, a.smul = x, y, None
        return 0

    def double(self, a):
        return self.add(a, a.clone())

    def scalar(self, pt, kbuf, n, seed):
        c = pt.curve
        k = _scalar_value(kbuf, operator.index(n))
        if isinstance(k, int) and not pt.sym():
            x, y = generic_smul(self._add(c), self._zero(c), k, (pt.x, pt.y))
            pt.x, pt.y, pt.smul = x, y, None
        elif isinstance(k, int) and k == 0:
            pt.x, pt.y = self._zero(c)
            pt.smul = None
        elif isinstance(k, int) and k == 1:
            pass
        else:
            pt.assign(sym_smul(c, k, pt))
        return 0


class WsLib(_TwoCoordLib):
    def ec_ws_new_context(self, out, modulus, b, order, n, seed):
        n = operator.index(n)
        p = core.int_from_bytes(rd(modulus, n), 'big')
        bb = core.int_from_bytes(rd(b, n), 'big')
        o = core.int_from_bytes(rd(order, n), 'big')
        if not all(isinstance(v, int) for v in (p, bb, o)):
            raise Inconclusive("symbolic curve parameters")
        if p % 2 == 0:
            return ERR_MODULUS
        out.set(Curve('ws', 'ws%d' % (8 * n), p, n, b=bb, order=o))
        return 0

    def ec_ws_free_context(self, c):
        return None

    def _curve_of(self, context):
        return context

    ec_ws_new_point = _TwoCoordLib.new_point
    ec_ws_free_point = _TwoCoordLib.free_point
    ec_ws_get_xy = _TwoCoordLib.get_xy
    ec_ws_double = _TwoCoordLib.double
    ec_ws_add = _TwoCoordLib.add
    ec_ws_scalar = _TwoCoordLib.scalar
    ec_ws_clone = _TwoCoordLib.clone
    ec_ws_cmp = _TwoCoordLib.cmp
    ec_ws_neg = _TwoCoordLib.neg


register("Crypto.PublicKey._ec_ws")(WsLib)


def _ed_lib(prefix, curve, with_context):
    class EdLib(_TwoCoordLib):
        def _curve_of(self, context):
            return curve
    lib = EdLib()
    for nm in ('new_point', 'free_point', 'get_xy', 'double', 'add', 'scalar', 'clone', 'cmp', 'neg'):
        setattr(lib, prefix + "_" + nm, getattr(lib, nm))
    if with_context:
        def new_context(out):
            out.set(curve)
            return 0
        setattr(lib, prefix + "_new_context", new_context)
        setattr(lib, prefix + "_free_context", lambda c: None)
    return lib


register("Crypto.PublicKey._ed25519")(lambda: _ed_lib("ed25519", ED25519, False))
register("Crypto.PublicKey._ed448")(lambda: _ed_lib("ed448", ED448, True))


def _mont_lib(prefix, curve, with_context):
    class MontLib(object):
        def new_point(self, out, xb, n, context=None):
            n = operator.index(n)
            if n != curve.nbytes:
                return ERR_VALUE
            if xb is None:
                out.set(Pt(curve, None, None, inf=True))
                return 0
            x = core.int_from_bytes(rd(xb, n), 'big')
            # every x of the byte length is accepted (RFC 7748: curve or twist) and reduced mod p (curve25519: on the
            # way out, in convert_le25p5_to_be8; curve448: on the way in, by mont_new_from_bytes)
            out.set(Pt(curve, x, None, smul=_recover_smul(curve, x)))
            return 0

        def free_point(self, pt):
            if pt is not None:
                pt.alive = False

        def clone(self, out, src):
            out.set(src.clone())
            return 0

        def get_x(self, xb, n, pt):
            n = operator.index(n)
            if n != curve.nbytes:
                return ERR_VALUE
            inf = pt.inf
            if isinstance(inf, SymBool):
                inf = bool(inf)      # forks
            if inf:
                return ERR_EC_PAI
            x = pt.x
            if isinstance(x, int):
                x %= curve.p
            elif pt.smul is None:
                # caller-supplied symbolic coordinate: the field element is x mod p (x < 2^bits < 3p)
                w = 8 * curve.nbytes + 1
                e = _cbv(x, w)
                pv = z3.BitVecVal(curve.p, w)
                e = z3.If(z3.UGE(e, pv), e - pv, e)
                x = SymInt.make(z3.If(z3.UGE(e, pv), e - pv, e), w, nn=True)
            _write_coord(xb, x, n)
            return 0

        def scalar(self, pt, kbuf, n, seed):
            k = _scalar_value(kbuf, operator.index(n))
            if isinstance(k, int) and not pt.sym():
                if pt.inf:
                    return 0
                r = mont_ladder(curve, k, pt.x)
                if r is None:
                    pt.x, pt.inf = None, True
                else:
                    pt.x, pt.inf = r, False
                pt.smul = None
            else:
                if pt.inf is True:
                    return 0
                if isinstance(k, int) and k == 0:
                    pt.x, pt.inf, pt.smul = None, True, None
                    return 0
                if isinstance(k, int) and k == 1 and not isinstance(pt.inf, SymBool):
                    return 0        # (for the points the harnesses build: x-coordinates of clamped-scalar multiples)
                pt.assign(sym_smul(curve, k, pt))
            return 0

        def cmp(self, a, b):
            eq = core.sym_or(core.sym_and(a.inf, b.inf),
                             core.sym_and(core.sym_not(a.inf), core.sym_not(b.inf),
                                          (a.x if a.x is not None else 0) == (b.x if b.x is not None else 0)))
            if isinstance(eq, SymBool):
                return SymInt.make(z3.If(eq.e, z3.BitVecVal(0, 3), z3.BitVecVal(1, 3)), 3, nn=True)
            return 0 if eq else 1
    lib = MontLib()
    for nm in ('new_point', 'free_point', 'get_x', 'scalar', 'clone', 'cmp'):
        setattr(lib, prefix + "_" + nm, getattr(lib, nm))
    if with_context:
        def new_context(out):
            out.set(curve)
            return 0
        setattr(lib, prefix + "_new_context", new_context)
        setattr(lib, prefix + "_free_context", lambda c: None)
    return lib


register("Crypto.PublicKey._curve25519")(lambda: _mont_lib("curve25519", X25519, False))
register("Crypto.PublicKey._curve448")(lambda: _mont_lib("curve448", X448, True))
