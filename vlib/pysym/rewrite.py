"""AST rewriting importer for /repo/lib/Crypto and the call dispatcher.

The transformer does not change program logic: every Call is routed through __ps_call__, which
invokes the original callable unchanged unless (a) it is one of a fixed table of builtins / C
functions and (b) an argument is a symbolic proxy -- then a small model runs instead.
"""
import ast
import binascii
import builtins
import hashlib
import importlib.abc
import importlib.machinery
import importlib.util
import math
import operator
import os
import struct
import sys

import z3

from . import core
from .core import (SymInt, SymBool, SymBytes, SymByteArray, SymMemoryView, Inconclusive, is_sym,
                   to_elems, byte_to_int, int_to_byte, int_from_bytes, ctx)

REPO_LIB = os.environ.get("VERIF_REPO_LIB", "/repo/lib")

loaded_sources = {}      # module name -> (path, sha256)

# --------------------------------------------------------------------------------------------


class Rewriter(ast.NodeTransformer):
    def visit_Call(self, node):
        self.generic_visit(node)
        # leave super() alone (needs the compiler's __class__ cell magic)
        if isinstance(node.func, ast.Name) and node.func.id in ('super', 'locals', 'globals', 'vars'):
            return node
        return ast.copy_location(
            ast.Call(func=ast.Name(id='__ps_call__', ctx=ast.Load()),
                     args=[node.func] + node.args, keywords=node.keywords), node)

    def visit_BinOp(self, node):
        self.generic_visit(node)
        if isinstance(node.op, ast.Mod) and isinstance(node.left, ast.Constant) and \
                isinstance(node.left.value, str):
            return ast.copy_location(
                ast.Call(func=ast.Name(id='__ps_fmt__', ctx=ast.Load()),
                         args=[node.left, node.right], keywords=[]), node)
        return node

    def visit_ExceptHandler(self, node):
        self.generic_visit(node)
        if node.type is None:
            node.type = ast.copy_location(ast.Name(id='Exception', ctx=ast.Load()), node)
        return node


def ps_not(x):
    if isinstance(x, SymBool):
        return not bool(x)
    return not x


def ps_fmt(fmt, arg):
    args = arg if isinstance(arg, tuple) else (arg,)
    if any(is_sym(a) for a in args):
        return fmt
    return fmt % arg


class _Loader(importlib.machinery.SourceFileLoader):
    def get_code(self, fullname):
        path = self.get_filename(fullname)
        data = self.get_data(path)
        loaded_sources[fullname] = (path, hashlib.sha256(data).hexdigest())
        tree = ast.parse(data, path)
        tree = Rewriter().visit(tree)
        ast.fix_missing_locations(tree)
        return compile(tree, path, 'exec', dont_inherit=True)


class _Finder(importlib.abc.MetaPathFinder):
    def find_spec(self, fullname, path, target=None):
        if fullname != 'Crypto' and not fullname.startswith('Crypto.'):
            return None
        parts = fullname.split('.')
        base = os.path.join(REPO_LIB, *parts)
        if os.path.isdir(base) and os.path.isfile(os.path.join(base, '__init__.py')):
            fn = os.path.join(base, '__init__.py')
            return importlib.util.spec_from_file_location(
                fullname, fn, loader=_Loader(fullname, fn), submodule_search_locations=[base])
        fn = base + '.py'
        if os.path.isfile(fn):
            return importlib.util.spec_from_file_location(fullname, fn, loader=_Loader(fullname, fn))
        return None


_installed = False


def install():
    global _installed
    if _installed:
        return
    _installed = True
    for m in list(sys.modules):
        if m == 'Crypto' or m.startswith('Crypto.'):
            raise RuntimeError("Crypto already imported before PYSYM install")
    sys.meta_path.insert(0, _Finder())
    builtins.__ps_call__ = ps_call
    builtins.__ps_fmt__ = ps_fmt
    builtins.__ps_not__ = ps_not
    from . import natives
    natives.install()


# --------------------------------------------------------------------------------------------
# dispatcher

import collections as _collections
_SEQ = (list, tuple, _collections.deque)


def _wrapped_sym(a):
    """Crypto.Math IntegerNative holding a symbolic value"""
    return isinstance(getattr(a, '_value', None), SymInt)


def _unwrap(a):
    return a._value if _wrapped_sym(a) else a


def _any_sym(args, kw):
    for a in args:
        if is_sym(a) or _wrapped_sym(a):
            return True
        if type(a) in _SEQ:
            for b in a:
                if is_sym(b):
                    return True
                if type(b) in (list, tuple):
                    for c in b:
                        if is_sym(c):
                            return True
    for a in kw.values():
        if is_sym(a):
            return True
    return False


MODELS = {}       # callable -> model (used when some argument is symbolic)
ALWAYS = {}       # callable -> model (used always)
_BUILTIN_METHOD = type(b''.join)
_METHOD_DESCRIPTOR = type(bytes.join)


def ps_call(f, *args, **kw):
    try:
        m = ALWAYS.get(f)
    except TypeError:
        m = None
    if m is not None:
        return m(*args, **kw)
    if not _any_sym(args, kw):
        return f(*args, **kw)
    try:
        m = MODELS.get(f)
    except TypeError:
        m = None
    if m is not None:
        if f is pow and args and _wrapped_sym(args[0]):
            # pow(Integer, e, m) dispatches to the wrapper's own __pow__ (which returns a wrapper), as in CPython
            return f(*args, **kw)
        return m(*[_unwrap(a) for a in args], **kw)
    tf = type(f)
    if tf is _BUILTIN_METHOD:
        s = getattr(f, '__self__', None)
        if isinstance(s, bytes):
            return getattr(SymBytes(list(s)), f.__name__)(*args, **kw)
        if isinstance(s, bytearray):
            if f.__name__ in ('extend', 'append', '__iadd__', 'insert', '__setitem__'):
                raise Inconclusive("mutation of a real bytearray with symbolic data (%s)" % f.__name__)
            return getattr(SymByteArray(list(s)), f.__name__)(*args, **kw)
        if isinstance(s, int) and not isinstance(s, bool) and f.__name__ == 'to_bytes':
            return s.to_bytes(*[operator.index(a) if isinstance(a, SymInt) else a for a in args], **kw)
        if s is int and f.__name__ == 'from_bytes':
            return m_int_from_bytes(*args, **kw)
        if s is bytes and f.__name__ == 'fromhex':
            return f(*args, **kw)
    # a proxy must never reach un-modelled C code through a call: library code often catches
    # TypeError (import cascades), which would turn an engine leak into a wrong verdict
    modname = getattr(f, '__module__', None) or getattr(getattr(f, '__self__', None), '__module__', None)
    if modname in _DENY_MODULES:
        raise Inconclusive("un-modelled C function %s.%s called with a symbolic argument"
                           % (modname, getattr(f, '__name__', f)))
    return f(*args, **kw)


_DENY_MODULES = frozenset(['binascii', '_struct', 'struct', 'math', 'zlib', 'hashlib', '_hashlib', 're', '_sre',
                           'base64', 'ctypes', '_ctypes', 'cffi', '_cffi_backend', 'codecs', '_codecs',
                           'itertools', 'functools', '_functools', 'operator', '_operator', 'json', 'time',
                           'os', 'posix', 'io', '_io'])


def model(*fs):
    def deco(m):
        for f in fs:
            MODELS[f] = m
        return m
    return deco


def always(*fs):
    def deco(m):
        for f in fs:
            ALWAYS[f] = m
        return m
    return deco


def _pytype(x):
    if isinstance(x, SymBytes):
        return bytes
    if isinstance(x, SymByteArray):
        return bytearray
    if isinstance(x, SymMemoryView):
        return memoryview
    if isinstance(x, SymInt):
        return int
    if isinstance(x, SymBool):
        return bool
    return type(x)


@model(isinstance)
def m_isinstance(x, cls):
    return issubclass(_pytype(x), cls)


@always(type)
def m_type(*a):
    if len(a) == 1:
        return _pytype(a[0])
    return type(*a)


@model(len)
def m_len(x):
    return len(x)


@model(bytes)
def m_bytes(x=b'', *a):
    if isinstance(x, (SymBytes, SymByteArray)):
        return SymBytes(x.b)
    if isinstance(x, SymMemoryView):
        return x.tobytes()
    if isinstance(x, SymInt):
        return bytes(operator.index(x))
    if isinstance(x, (list, tuple)):
        return SymBytes([int_to_byte(v) for v in x])
    return bytes(x, *a)


@always(bytearray)
def m_bytearray(x=b'', *a):
    if isinstance(x, (SymBytes, SymByteArray)):
        return SymByteArray(x.b)
    if isinstance(x, SymMemoryView):
        return SymByteArray(x.elems())
    if isinstance(x, SymInt):
        return SymByteArray([0] * operator.index(x))
    if isinstance(x, int):
        return SymByteArray([0] * x)
    if isinstance(x, (bytes, bytearray, memoryview)):
        return SymByteArray(list(bytes(x)))
    if isinstance(x, str):
        return SymByteArray(list(bytearray(x, *a)))
    return SymByteArray([int_to_byte(v) for v in x])


@model(memoryview)
def m_memoryview(x):
    return SymMemoryView(x)


@always(int)
def m_int(x=0, base=None):
    if isinstance(x, SymInt):
        return x
    v = getattr(x, '_value', None)
    if isinstance(v, SymInt):       # Crypto.Math IntegerNative wrapping a symbolic value
        return v
    if isinstance(x, SymBool):
        return x.as_int()
    if isinstance(x, (SymBytes, SymByteArray)):
        return int(x.concrete(), base or 10)
    return int(x) if base is None else int(x, base)


@model(bool)
def m_bool(x=False):
    if isinstance(x, SymBool):
        return x
    if isinstance(x, SymInt):
        return x != 0
    return bool(x)


@model(abs)
def m_abs(x):
    return abs(x)


@model(min)
def m_min(*a, **kw):
    if len(a) == 1:
        a = tuple(a[0])
    r = a[0]
    for x in a[1:]:
        if isinstance(x, SymInt) or isinstance(r, SymInt):
            lt = (x < r)
            if isinstance(lt, SymBool):
                xe, xw, xn = SymInt.co(x)
                re_, rw, rn = SymInt.co(r)
                w = max(xw, rw)
                r = SymInt.make(z3.If(lt.e, core._sext(xe, xw, w), core._sext(re_, rw, w)), w, xn and rn)
            elif lt:
                r = x
        elif x < r:
            r = x
    return r


@model(max)
def m_max(*a, **kw):
    if len(a) == 1:
        a = tuple(a[0])
    r = a[0]
    for x in a[1:]:
        if isinstance(x, SymInt) or isinstance(r, SymInt):
            gt = (x > r)
            if isinstance(gt, SymBool):
                xe, xw, xn = SymInt.co(x)
                re_, rw, rn = SymInt.co(r)
                w = max(xw, rw)
                r = SymInt.make(z3.If(gt.e, core._sext(xe, xw, w), core._sext(re_, rw, w)), w, xn and rn)
            elif gt:
                r = x
        elif x > r:
            r = x
    return r


@model(sum)
def m_sum(xs, start=0):
    r = start
    for x in xs:
        r = r + x
    return r


@model(divmod)
def m_divmod(a, b):
    return a // b, a % b


@model(ord)
def m_ord(x):
    e = to_elems(x)
    if len(e) != 1:
        raise TypeError("ord() expected a character")
    return byte_to_int(e[0])


@model(bin)
def m_bin(x):
    return bin(operator.index(x))


@model(hex)
def m_hex(x):
    return hex(operator.index(x))


@model(range)
def m_range(*a):
    return range(*[operator.index(x) for x in a])


@model(list)
def m_list(x=()):
    return [v for v in x]


@model(tuple)
def m_tuple(x=()):
    return tuple([v for v in x])


@model(reversed)
def m_reversed(x):
    return iter(list(x)[::-1])


@model(str)
def m_str(x='', *a):
    if is_sym(x):
        return "<sym>"
    return str(x, *a)


@model(repr)
def m_repr(x):
    return "<sym>"


@model(hash)
def m_hash(x):
    return hash(x)


@model(pow)
def m_pow(b, e, m=None):
    from . import natives
    return natives.sym_pow(b, e, m)


@model(math.gcd)
def m_gcd(a, b):
    while b != 0:
        a, b = b, a % b
    return abs(a)


@model(int.from_bytes)
def m_int_from_bytes(b, byteorder='big', signed=False):
    return int_from_bytes(to_elems(b), byteorder, signed)


@model(int.to_bytes)
def m_int_to_bytes(self, *a, **kw):
    return self.to_bytes(*a, **kw)


@model(int.bit_length)
def m_bit_length(self):
    return self.bit_length()


@model(bytes.join)
def m_bytes_join(self, parts):
    return core.lift_bytes(self).join(parts)


@always(os.urandom)
def m_urandom(n):
    from . import natives
    return natives.random_bytes(operator.index(n))


@model(binascii.hexlify)
def m_hexlify(x):
    raise Inconclusive("hexlify of symbolic bytes")


@model(binascii.unhexlify)
def m_unhexlify(x):
    if isinstance(x, (SymBytes, SymByteArray)):
        return SymBytes(list(binascii.unhexlify(x.concrete())))
    raise Inconclusive("unhexlify of symbolic data")


_STRUCT_SIZES = {'B': 1, 'b': 1, 'H': 2, 'h': 2, 'I': 4, 'i': 4, 'L': 4, 'l': 4, 'Q': 8, 'q': 8}


def _parse_fmt(fmt):
    if isinstance(fmt, bytes):
        fmt = fmt.decode()
    order = 'big'
    if fmt and fmt[0] in '<>!=@':
        if fmt[0] == '<':
            order = 'little'
        elif fmt[0] in '=@':
            order = sys.byteorder
        fmt = fmt[1:]
    items = []
    cnt = ''
    for ch in fmt:
        if ch.isdigit():
            cnt += ch
            continue
        n = int(cnt) if cnt else 1
        cnt = ''
        if ch == 's':
            items.append(('s', n))
        elif ch == 'x':
            items.append(('x', n))
        elif ch in _STRUCT_SIZES:
            for _ in range(n):
                items.append((ch, _STRUCT_SIZES[ch]))
        else:
            raise Inconclusive("struct format %r" % ch)
    return order, items


@model(struct.pack)
def m_struct_pack(fmt, *vals):
    order, items = _parse_fmt(fmt)
    out = []
    vi = 0
    for ch, n in items:
        if ch == 'x':
            out.extend([0] * n)
            continue
        v = vals[vi]
        vi += 1
        if ch == 's':
            e = to_elems(v)[:n]
            out.extend(e + [0] * (n - len(e)))
            continue
        if ch.islower():
            raise Inconclusive("signed struct.pack on symbolic value")
        if isinstance(v, SymInt):
            try:
                out.extend(v.to_bytes(n, order).b)
            except OverflowError:
                raise struct.error("argument out of range")
        else:
            out.extend(list(struct.pack(('>' if order == 'big' else '<') + ch, v)))
    if vi != len(vals):
        raise struct.error("pack expected %d items" % vi)
    return SymBytes(out)


@model(struct.unpack)
def m_struct_unpack(fmt, data):
    order, items = _parse_fmt(fmt)
    e = to_elems(data)
    if sum(n for _, n in items) != len(e):
        raise struct.error("unpack requires a buffer of %d bytes" % sum(n for _, n in items))
    out = []
    pos = 0
    for ch, n in items:
        seg = e[pos:pos + n]
        pos += n
        if ch == 'x':
            continue
        if ch == 's':
            out.append(SymBytes(seg))
        elif ch.islower():
            raise Inconclusive("signed struct.unpack on symbolic value")
        else:
            out.append(int_from_bytes(seg, order))
    return tuple(out)


@model(struct.unpack_from)
def m_struct_unpack_from(fmt, data, offset=0):
    order, items = _parse_fmt(fmt)
    n = sum(k for _, k in items)
    e = to_elems(data)[offset:offset + n]
    return m_struct_unpack(fmt, SymBytes(e))
