"""Entry point:  python3-vt -m vlib.run C01 [--replay file]"""
import importlib
import json
import os
import sys
import time

from vlib import common


def main(argv):
    if "--replay" in argv:
        # ./check C13 --replay <file>   (also accepted: ./check --replay <file>)
        i = argv.index("--replay")
        if i + 1 >= len(argv):
            print("usage: check <PROP> --replay <file>")
            return 3
        path = argv[i + 1]
        ok, log = common.run_replay(path)
        print(log)
        if ok:
            try:
                prop = json.load(open(path)).get("property", argv[1].upper())
            except Exception:
                prop = argv[1].upper()
            print("VIOLATION property=%s replay=%s" % (prop, path))
        return 1 if ok else (0 if ok is False else 3)
    prop = argv[1].upper()
    for a in argv[2:]:
        if a.startswith("--tier="):
            os.environ["VERIF_TIER"] = a.split("=", 1)[1]
    mod = importlib.import_module("props.%s" % prop.lower())
    res = common.Result(prop, getattr(mod, "LEVEL", "other"))
    try:
        explanation = mod.check(res, common.tier()) if hasattr(mod, "check") else default_check(mod, res)
    except Exception as e:
        import traceback
        traceback.print_exc()
        res.harness_errors.append("driver crashed: %s: %s" % (type(e).__name__, e))
        explanation = "driver crashed"
    return res.finish(explanation)


def default_check(mod, res):
    tier = common.tier()
    jobs = mod.shapes(tier)
    only = os.environ.get("VERIF_ONLY")
    if only:
        jobs = [j for j in jobs if j[0] in only.split(",")]
    common.run_pysym_grid(res, mod.__name__, jobs)
    res.bounds.update(getattr(mod, "BOUNDS", {}))
    res.assumptions.extend(getattr(mod, "ASSUMPTIONS", []))
    if getattr(mod, "VALIDATE", True):
        vjobs = jobs if len(jobs) <= 400 else jobs[::max(1, len(jobs) // 400)]
        common.validate_concrete(res, mod.__name__, vjobs)
    return getattr(mod, "EXPLANATION", mod.__doc__ or "")


if __name__ == "__main__":
    sys.exit(main(sys.argv))
