"""Shared plumbing: shape-grid runner (16 processes), replay, known findings, evidence, exit codes."""
import hashlib
import json
import multiprocessing
import os
import signal
import subprocess
import sys
import time
import traceback

VERIF = os.path.dirname(os.path.dirname(os.path.abspath(__file__)))
REPO = os.environ.get("VERIF_REPO", "/repo")
VENV_PY = os.environ.get("VERIF_VENV_PY", "/venv/bin/python")
EXIT_OK, EXIT_VIOLATION, EXIT_INCONCLUSIVE, EXIT_HARNESS = 0, 1, 2, 3
NPROC = int(os.environ.get("VERIF_NPROC", str(min(16, os.cpu_count() or 1))))


def tier():
    t = os.environ.get("VERIF_TIER", "quick")
    return t if t in ("quick", "thorough") else "quick"


def seed():
    try:
        return int(os.environ.get("VERIF_SEED", "0"))
    except ValueError:
        return 0


def sha256_file(p):
    with open(p, 'rb') as f:
        return hashlib.sha256(f.read()).hexdigest()


def known_findings():
    p = os.path.join(VERIF, "known_findings.json")
    if not os.path.exists(p):
        return []
    with open(p) as f:
        return json.load(f).get("findings", [])


def match_known(prop, harness, label, shape, inputs):
    """A finding entry suppresses only the exact failing site it names."""
    for k in known_findings():
        if k.get("status") != "known":
            continue
        if k.get("property") != prop or k.get("harness") != harness:
            continue
        if k.get("label") is not None and k["label"] != label:
            continue
        ms = k.get("shape_match") or {}
        if any(shape.get(a) != b for a, b in ms.items()):
            continue
        mi = k.get("input_match") or {}
        if any(inputs.get(a) != b for a, b in mi.items()):
            continue
        return k
    return None


class Result(object):
    """Accumulates the outcome of one property check."""

    def __init__(self, prop, level="other"):
        self.prop = prop
        self.level = level
        self.t0 = time.time()
        self.stats = dict(paths=0, aborted=0, forks=0, queries=0, solver_s=0.0, obligations=0,
                          discharged=0, trivial=0)
        self.shapes = 0
        self.nontrivial = set()
        self.samples = []
        self.violations = []      # dicts
        self.known = []
        self.inconclusive = []
        self.harness_errors = []
        self.functions = {}
        self.bounds = {}
        self.stubs = set()
        self.assumptions = []
        self.validated = 0
        self.states = 0
        self.transitions = 0
        self.extra = {}
        self.harness_stats = {}

    def add_stats(self, hname, st):
        hs = self.harness_stats.setdefault(hname, dict(shapes=0, paths=0, obligations=0, discharged=0,
                                                       queries=0, solver_s=0.0, trivial=0))
        hs['shapes'] += 1
        for k in ('paths', 'obligations', 'discharged', 'queries', 'solver_s', 'trivial'):
            hs[k] += st.get(k, 0)
        for k in self.stats:
            self.stats[k] += st.get(k, 0)

    def finish(self, explanation):
        wall = time.time() - self.t0
        cov = dict(
            explanation=explanation,
            evaluations=self.stats['paths'],
            distinct_nontrivial=len(self.nontrivial),
            rule=("one case = one feasible path of one shape (a shape fixes lengths/flags; all byte "
                  "contents and data-derived integers are solver variables); a shape is non-trivial "
                  "when it needed at least one solver query (branch feasibility or obligation not closed by "
                  "term simplification alone); distinct = distinct shape descriptors"),
            samples=self.samples[:8],
            obligations=self.stats['obligations'],
            discharged=self.stats['discharged'],
            closed_by_simplifier=self.stats['trivial'],
            inconclusive=len(self.inconclusive),
            inconclusive_items=self.inconclusive[:20],
            shapes=self.shapes,
            paths=self.stats['paths'],
            infeasible_paths_pruned=self.stats['aborted'],
            queries=self.stats['queries'],
            solver_s=round(self.stats['solver_s'], 3),
            functions_encoded=self.functions,
            bounds=self.bounds,
            stubs=sorted(self.stubs),
            traces_validated_against_impl=self.validated,
            per_harness=self.harness_stats,
            exhaustive=False,
            trusted_base=["z3 5.1 (python wheel)", "vlib PYSYM proxies / LLSYM IR interpreter",
                          "reference models in vlib/models", "clang-14 front end (LLSYM only)"],
            known_findings_reported=[k.get("id") for k in self.known],
        )
        if self.level == "model_checking":
            cov['states'] = max(1, self.states)
            cov['transitions'] = max(1, self.transitions)
        cov.update(self.extra)
        ev = dict(property_id=self.prop, tier=tier(), seed=seed(), level=self.level, coverage=cov,
                  assumptions=self.assumptions, wall_s=round(wall, 2),
                  violations=len(self.violations))
        out_dir = os.environ.get("VERIF_OUT", VERIF)       # scratch output root for mutant runs (tools/seeded_status.py)
        os.makedirs(os.path.join(out_dir, "evidence"), exist_ok=True)
        with open(os.path.join(out_dir, "evidence", self.prop + ".json"), "w") as f:
            json.dump(ev, f, indent=1, sort_keys=True, default=str)
        for k in self.known:
            print("KNOWN-FINDING: property=%s %s" % (self.prop, k.get("what", k.get("id"))))
        for v in self.violations:
            print("VIOLATION property=%s replay=%s" % (self.prop, v['replay']))
        print("[%s] tier=%s shapes=%d paths=%d obligations=%d discharged=%d inconclusive=%d "
              "violations=%d harness_errors=%d wall=%.1fs solver=%.1fs" %
              (self.prop, tier(), self.shapes, self.stats['paths'], self.stats['obligations'],
               self.stats['discharged'], len(self.inconclusive), len(self.violations),
               len(self.harness_errors), wall, self.stats['solver_s']))
        for e in self.harness_errors[:10]:
            print("HARNESS-ERROR: %s" % (e,))
        for e in self.inconclusive[:10]:
            print("INCONCLUSIVE: %s" % (e,))
        if self.violations:
            return EXIT_VIOLATION
        if self.harness_errors:
            return EXIT_HARNESS
        if self.inconclusive:
            return EXIT_INCONCLUSIVE
        return EXIT_OK


def write_replay(prop, harness, shape, inputs, label, engine="pysym", extra=None):
    d = os.path.join(os.environ.get("VERIF_OUT", VERIF), "replays")
    os.makedirs(d, exist_ok=True)
    body = dict(property=prop, harness=harness, shape=shape, inputs=inputs, label=label, engine=engine)
    if extra:
        body.update(extra)
    h = hashlib.sha256(json.dumps(body, sort_keys=True, default=str).encode()).hexdigest()[:12]
    p = os.path.join(d, "%s-%s-%s.json" % (prop, harness, h))
    with open(p, "w") as f:
        json.dump(body, f, indent=1, sort_keys=True, default=str)
    return p


def run_replay(path, timeout=600):
    """Replays a counterexample on the real library.  -> (reproduced: bool|None, output)"""
    env = dict(os.environ)
    env["PYTHONPATH"] = VERIF
    p = subprocess.run([VENV_PY, "-m", "vlib.replay", path], cwd=VERIF, env=env, capture_output=True,
                       text=True, timeout=timeout)
    out = (p.stdout + p.stderr)[-4000:]
    if p.returncode == 1:
        return True, out
    if p.returncode < 0:
        # the real code crashed (SIGSEGV / SIGBUS / SIGABRT) on the solver's input: confirmation
        return True, out + "\n[replay process killed by signal %d]" % -p.returncode
    if p.returncode == 0:
        # out-of-bounds READS leave no trace in guard bytes: replay once more on an AddressSanitizer
        # build of the C kernel (an ASan report = confirmation)
        asan = subprocess.run(["gcc", "-print-file-name=libasan.so"], capture_output=True, text=True).stdout.strip()
        if asan and os.path.exists(asan):
            env2 = dict(env)
            env2.update(LD_PRELOAD=asan, VERIF_ASAN="1", ASAN_OPTIONS="detect_leaks=0:abort_on_error=0:exitcode=1")
            p2 = subprocess.run([VENV_PY, "-m", "vlib.replay", path], cwd=VERIF, env=env2, capture_output=True,
                                text=True, timeout=timeout)
            out2 = (p2.stdout + p2.stderr)
            if "AddressSanitizer" in out2 or p2.returncode == 1:
                return True, out2[-4000:]
        return False, out
    return None, out


# ---------------------------------------------------------------------------------------------
# PYSYM grid runner

_HARNESSES = None


def _worker(job):
    """job = (module_name, harness_name, shape)"""
    modname, hname, shape = job
    from vlib.pysym import core, rewrite, natives
    rewrite.install()
    import importlib
    mod = importlib.import_module(modname)
    h = mod.HARNESSES[hname]
    from vlib.env import SymEnv
    st = core.new_stats()
    out = dict(harness=hname, shape=shape, status="ok", stats=st, module=modname)
    t0 = time.time()
    budget = int(getattr(h, 'budget_s', 0) or _default_budget())

    def _alarm(signum, frame):
        raise core.Inconclusive("shape time budget of %d s exceeded" % budget)
    signal.signal(signal.SIGALRM, _alarm)
    signal.alarm(budget)
    try:
        def body(c):
            env = SymEnv(c)
            return h.run(env, shape)
        core.explore(body, stats=st, max_paths=getattr(h, 'max_paths', 4000),
                     timeout_ms=getattr(h, 'timeout_ms', 60000),
                     concretize_cap=getattr(h, 'concretize_cap', 300))
        if st['paths'] == 0:
            out['status'] = "inconclusive"
            out['detail'] = "vacuous: no feasible path"
        elif st['obligations'] == 0:
            out['status'] = "inconclusive"
            out['detail'] = "vacuous: no obligation reached"
    except core.Violation as v:
        out['status'] = "violation"
        out['label'] = v.label
        out['inputs'] = v.inputs
    except core.Inconclusive as e:
        out['status'] = "inconclusive"
        out['detail'] = str(e)
    except Exception as e:
        if "shape time budget" in str(e):
            # the alarm fired inside a ctypes callback (z3): the budget exception arrives wrapped
            out['status'] = "inconclusive"
            out['detail'] = "shape time budget of %d s exceeded" % budget
        else:
            out['status'] = "error"
            out['detail'] = "%s: %s\n%s" % (type(e).__name__, e, traceback.format_exc()[-1500:])
    finally:
        signal.alarm(0)
    out['wall'] = time.time() - t0
    out['sources'] = dict(rewrite.loaded_sources)
    out['stubs'] = sorted(natives.stub_uses)
    return out


def _default_budget():
    """per-shape wall-clock budget: 240 s in the quick tier, 900 s in the thorough tier (deeper shapes, and the
    tier is meant to be run when the time is available)"""
    v = os.environ.get("VERIF_SHAPE_BUDGET_S")
    if v:
        return int(v)
    return 900 if os.environ.get("VERIF_TIER", "quick") == "thorough" else 240


def _worker_loop(conn, mem_bytes):
    try:
        import resource
        resource.setrlimit(resource.RLIMIT_AS, (mem_bytes, mem_bytes))
    except Exception:
        pass
    signal.signal(signal.SIGINT, signal.SIG_IGN)
    while True:
        try:
            job = conn.recv()
        except EOFError:
            return
        if job is None:
            return
        try:
            out = _worker(job)
        except MemoryError:
            out = dict(harness=job[1], shape=job[2], status="inconclusive", stats=_zero_stats(),
                       detail="memory limit exceeded", sources={}, stubs=[])
        except BaseException as e:          # noqa: BLE001
            out = dict(harness=job[1], shape=job[2], status="error", stats=_zero_stats(),
                       detail="worker exception %s: %s" % (type(e).__name__, e), sources={}, stubs=[])
        try:
            conn.send(out)
        except Exception:
            return


def _zero_stats():
    return dict(paths=0, aborted=0, forks=0, queries=0, solver_s=0.0, obligations=0, discharged=0, trivial=0, max_trace=0)


def run_pysym_grid(res, modname, jobs, chunks=1):
    """jobs: list of (harness_name, shape).  Own process pool: a worker that exceeds its wall-clock
    budget (or dies, e.g. on the memory limit) is killed and replaced and its shape is reported
    inconclusive -- a runaway shape can neither hang the check nor be counted as success."""
    from multiprocessing.connection import wait
    jobs = [(modname, h, s) for h, s in jobs]
    if not jobs:
        return
    nproc = max(1, min(NPROC, len(jobs)))
    ctxm = multiprocessing.get_context("fork")
    mem = int(os.environ.get("VERIF_WORKER_MEM_GB", "6")) << 30
    default_budget = _default_budget()
    grace = 90
    pending = list(reversed(jobs))
    workers = {}        # conn -> dict(proc, job, t0, done)

    def spawn():
        pc, cc = ctxm.Pipe()
        p = ctxm.Process(target=_worker_loop, args=(cc, mem), daemon=True)
        p.start()
        cc.close()
        workers[pc] = dict(proc=p, job=None, t0=0.0, n=0)
        return pc

    def assign(pc):
        w = workers[pc]
        if not pending:
            return False
        if w['n'] >= 150:            # recycle long-lived workers (z3 memory)
            retire(pc)
            pc = spawn()
            w = workers[pc]
        job = pending.pop()
        w['job'], w['t0'] = job, time.time()
        w['n'] += 1
        pc.send(job)
        return True

    def retire(pc):
        w = workers.pop(pc)
        try:
            pc.send(None)
        except Exception:
            pass
        try:
            pc.close()
        except Exception:
            pass
        w['proc'].join(timeout=0.2)
        if w['proc'].is_alive():
            w['proc'].terminate()

    def kill(pc):
        w = workers.pop(pc)
        try:
            w['proc'].kill()
        except Exception:
            pass
        try:
            pc.close()
        except Exception:
            pass
        w['proc'].join(timeout=1)

    for _ in range(nproc):
        assign(spawn())
    try:
        while any(w['job'] is not None for w in workers.values()) or pending:
            busy = [pc for pc, w in workers.items() if w['job'] is not None]
            ready = wait(busy, timeout=1.0) if busy else []
            for pc in ready:
                w = workers[pc]
                try:
                    out = pc.recv()
                except (EOFError, OSError):
                    job = w['job']
                    kill(pc)
                    fold(res, dict(harness=job[1], shape=job[2], status="inconclusive", stats=_zero_stats(),
                                   detail="worker process died (memory limit or crash)", sources={}, stubs=[]))
                    assign(spawn())
                    continue
                w['job'] = None
                fold(res, out)
                if not assign(pc) and pc in workers:
                    pass
            now = time.time()
            for pc in list(workers):
                w = workers[pc]
                if w['job'] is None:
                    continue
                try:
                    import importlib
                    hb = getattr(importlib.import_module(w['job'][0]).HARNESSES[w['job'][1]], 'budget_s', 0) or default_budget
                except Exception:
                    hb = default_budget
                if now - w['t0'] > hb + grace:
                    job = w['job']
                    kill(pc)
                    fold(res, dict(harness=job[1], shape=job[2], status="inconclusive", stats=_zero_stats(),
                                   detail="hard wall-clock limit of %d s exceeded; worker killed" % (hb + grace),
                                   sources={}, stubs=[]))
                    assign(spawn())
            # keep every idle worker fed
            for pc in list(workers):
                if workers[pc]['job'] is None and pending:
                    assign(pc)
    finally:
        for pc in list(workers):
            w = workers[pc]
            if w['job'] is not None:
                kill(pc)
            else:
                retire(pc)


def fold(res, out):
    res.shapes += 1
    hname, shape = out['harness'], out['shape']
    res.add_stats(hname, out['stats'])
    for m, (p, h) in out.get('sources', {}).items():
        res.functions[m] = dict(file=p, sha256=h)
    res.stubs.update(out.get('stubs', []))
    st = out['stats']
    if st['queries'] > 0:
        res.nontrivial.add(hname + ":" + json.dumps(shape, sort_keys=True))
    if len(res.samples) < 8 and out['status'] == 'ok':
        res.samples.append(dict(harness=hname, shape=shape, paths=st['paths'],
                                obligations=st['obligations'], queries=st['queries']))
    if out['status'] == 'ok':
        return
    desc = "%s %s: %s" % (hname, json.dumps(shape, sort_keys=True), out.get('detail', out.get('label')))
    if out['status'] == 'inconclusive':
        if 'solver unknown' in str(out.get('detail', '')) and out.get('module'):
            # the solver could neither discharge the obligation nor produce a model (typically a sat
            # instance with thousands of nested UF applications).  Try to falsify the same harness
            # concretely on the real library; a reproduced failure is reported, anything else stays
            # inconclusive (never success).
            n0 = len(res.violations) + len(res.known)
            validate_concrete(res, out['module'], [(hname, shape)], n_random=3, as_violation=True)
            if len(res.violations) + len(res.known) > n0:
                return
        res.inconclusive.append(desc)
    elif out['status'] == 'error':
        res.harness_errors.append(desc)
    elif out['status'] == 'violation':
        handle_violation(res, hname, shape, out['inputs'], out['label'])


def handle_violation(res, hname, shape, inputs, label, engine="pysym", extra=None):
    path = write_replay(res.prop, hname, shape, inputs, label, engine, extra)
    try:
        ok, log = run_replay(path)
    except subprocess.TimeoutExpired:
        ok, log = None, "replay timeout"
    if ok is True:
        k = match_known(res.prop, hname, label, shape, inputs)
        if k is not None:
            if k not in res.known:
                res.known.append(k)
            return
        # de-duplicate by harness+label: one VIOLATION line per failing site
        for v in res.violations:
            if v['harness'] == hname and v['label'] == label:
                v['count'] += 1
                return
        res.violations.append(dict(harness=hname, label=label, shape=shape, replay=path, count=1))
    elif ok is False:
        res.harness_errors.append("counterexample did not reproduce on the real library: %s %s %s (%s)"
                                  % (hname, json.dumps(shape, sort_keys=True), label, path))
    else:
        res.harness_errors.append("replay failed to run: %s %s: %s" % (hname, path, log[-600:]))


def validate_concrete(res, modname, jobs, n_random=1, as_violation=True):
    """Run each harness concretely on the real library with random inputs (model-vs-impl validation)."""
    env = dict(os.environ)
    env["PYTHONPATH"] = VERIF
    spec = json.dumps(dict(module=modname, jobs=jobs, seed=seed(), n=n_random))
    p = subprocess.run([VENV_PY, "-m", "vlib.replay", "--validate", "-"], input=spec, cwd=VERIF, env=env,
                       capture_output=True, text=True, timeout=3600)
    try:
        r = json.loads(p.stdout.strip().splitlines()[-1])
    except Exception:
        res.harness_errors.append("concrete validation crashed: %s" % ((p.stdout + p.stderr)[-1500:],))
        return
    res.validated += r.get('ok', 0)
    for f in r.get('failed', []):
        # a concrete failure on the real library is a real violation candidate: replay file it
        hname, shape, inputs, label = f['harness'], f['shape'], f['inputs'], f['label']
        if f.get('error'):
            res.harness_errors.append("concrete validation error %s %s: %s" % (hname, shape, f['error']))
        else:
            handle_violation(res, hname, shape, inputs, label, engine="concrete")
