"""RFC 9180 (HPKE) s4 / s5.1 key schedule, RFC 5869 (HKDF), RFC 2104 (HMAC) over the primitive provider P."""

HASH = dict(SHA256=(32, 64), SHA384=(48, 128), SHA512=(64, 128))
KEM = {'NIST P-256': (0x0010, 'SHA256', 1), 'NIST P-384': (0x0011, 'SHA384', 2), 'NIST P-521': (0x0012, 'SHA512', 3),
       'Curve25519': (0x0020, 'SHA256', 1), 'Curve448': (0x0021, 'SHA512', 3)}


def hmac(P, h, key, msg):
    hl, bl = HASH[h]
    if len(key) > bl:
        key = P.hash(h, key, hl)
    k0 = P.concat(key, bytes(bl - len(key))) if len(key) < bl else key
    inner = P.hash(h, P.concat(P.xor(k0, bytes([0x36]) * bl), msg), hl)
    return P.hash(h, P.concat(P.xor(k0, bytes([0x5c]) * bl), inner), hl)


def hkdf_extract(P, h, salt, ikm):
    hl, _ = HASH[h]
    if len(salt) == 0:
        salt = bytes(hl)
    return hmac(P, h, salt, ikm)


def hkdf_expand(P, h, prk, info, L):
    hl, _ = HASH[h]
    t = P.const(b"")
    okm = []
    n = (L + hl - 1) // hl
    for i in range(1, n + 1):
        t = hmac(P, h, prk, P.concat(t, info, bytes([i])))
        okm.append(t)
    return P.concat(*okm)[:L] if okm else P.const(b"")


def labeled_extract(P, h, salt, label, ikm, suite_id):
    return hkdf_extract(P, h, salt, P.concat(b"HPKE-v1", suite_id, label, ikm))


def labeled_expand(P, h, prk, label, info, L, suite_id):
    return hkdf_expand(P, h, prk, P.concat(L.to_bytes(2, 'big'), b"HPKE-v1", suite_id, label, info), L)


def extract_and_expand(P, curve, dh, kem_context):
    kem_id, h, _ = KEM[curve]
    suite = b"KEM" + kem_id.to_bytes(2, 'big')
    eae = labeled_extract(P, h, b"", b"eae_prk", dh, suite)
    return labeled_expand(P, h, eae, b"shared_secret", kem_context, HASH[h][0], suite)


def key_schedule(P, curve, aead_id, mode, shared_secret, info, psk, psk_id):
    kem_id, h, kdf_id = KEM[curve]
    suite = b"HPKE" + kem_id.to_bytes(2, 'big') + kdf_id.to_bytes(2, 'big') + aead_id.to_bytes(2, 'big')
    nk = 16 if aead_id == 1 else 32
    psk_id_hash = labeled_extract(P, h, b"", b"psk_id_hash", psk_id, suite)
    info_hash = labeled_extract(P, h, b"", b"info_hash", info, suite)
    ctx = P.concat(bytes([mode]), psk_id_hash, info_hash)
    secret = labeled_extract(P, h, shared_secret, b"secret", psk, suite)
    key = labeled_expand(P, h, secret, b"key", ctx, nk, suite)
    base_nonce = labeled_expand(P, h, secret, b"base_nonce", ctx, 12, suite)
    exp = labeled_expand(P, h, secret, b"exp", ctx, HASH[h][0], suite)
    return key, base_nonce, exp
