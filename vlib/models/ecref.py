"""Textbook elliptic-curve arithmetic (definitions): short Weierstrass a=-3, twisted Edwards, RFC 7748 ladder.
Pure Python, no solver imports: used as the concrete group by the PYSYM native model and as the independent
reference in concrete replay / validation."""


class Curve(object):
    def __init__(self, fam, name, p, nbytes, **kw):
        self.fam, self.name, self.p, self.nbytes = fam, name, p, nbytes
        self.__dict__.update(kw)


ED25519 = Curve('ed', 'ed25519', 2 ** 255 - 19, 32, a=-1,
                d=37095705934669439343138083508754565189542113879843219016388785533085940283555)
ED448 = Curve('ed', 'ed448', 2 ** 448 - 2 ** 224 - 1, 56, a=1, d=-39081)
X25519 = Curve('mont', 'curve25519', 2 ** 255 - 19, 32, a24=121665, bits=255)
X448 = Curve('mont', 'curve448', 2 ** 448 - 2 ** 224 - 1, 56, a24=39081, bits=448)


# --------------------------------------------------------------------------------------------
# concrete arithmetic (definitions)

def _inv(a, p):
    return pow(a, p - 2, p)


def ws_on_curve(c, x, y):
    if (x, y) == (0, 0):
        return True
    if not (0 <= x < c.p and 0 <= y < c.p):
        return False
    return (y * y - (x * x * x - 3 * x + c.b)) % c.p == 0


def ws_add(c, P, Q):
    if P == (0, 0):
        return Q
    if Q == (0, 0):
        return P
    p = c.p
    if P[0] == Q[0]:
        if (P[1] + Q[1]) % p == 0:
            return (0, 0)
        lam = (3 * P[0] * P[0] - 3) * _inv(2 * P[1], p) % p
    else:
        lam = (Q[1] - P[1]) * _inv(Q[0] - P[0], p) % p
    x = (lam * lam - P[0] - Q[0]) % p
    return (x, (lam * (P[0] - x) - P[1]) % p)


def ed_on_curve(c, x, y):
    if not (0 <= x < c.p and 0 <= y < c.p):
        return False
    return (c.a * x * x + y * y - 1 - c.d * x * x * y * y) % c.p == 0


def ed_add(c, P, Q):
    p = c.p
    x1, y1 = P
    x2, y2 = Q
    t = c.d * x1 * x2 * y1 * y2 % p
    x = (x1 * y2 + x2 * y1) * _inv(1 + t, p) % p
    y = (y1 * y2 - c.a * x1 * x2) * _inv(1 - t, p) % p
    return (x, y)


def generic_smul(add, zero, k, P):
    R = zero
    Q = P
    while k:
        if k & 1:
            R = add(R, Q)
        Q = add(Q, Q)
        k >>= 1
    return R


def mont_ladder(c, k, u):
    """RFC 7748 s5 ladder on the raw scalar k (no clamping here); -> u coordinate or None (infinity)"""
    p = c.p
    x1 = u % p
    x2, z2, x3, z3 = 1, 0, x1, 1
    swap = 0
    for t in range(max(k.bit_length(), 1) - 1, -1, -1):
        kt = (k >> t) & 1
        swap ^= kt
        if swap:
            x2, x3, z2, z3 = x3, x2, z3, z2
        swap = kt
        A = (x2 + z2) % p
        AA = A * A % p
        B = (x2 - z2) % p
        BB = B * B % p
        E = (AA - BB) % p
        C = (x3 + z3) % p
        D = (x3 - z3) % p
        DA = D * A % p
        CB = C * B % p
        x3 = (DA + CB) ** 2 % p
        z3 = x1 * (DA - CB) ** 2 % p
        x2 = AA * BB % p
        z2 = E * (AA + c.a24 * E) % p
    if swap:
        x2, x3, z2, z3 = x3, x2, z3, z2
    if z2 == 0:
        return None
    return x2 * _inv(z2, p) % p
