"""Reference models of the modes of operation, written from the standards, parametric in the
primitive provider P (uninterpreted functions when symbolic, the real primitive when replaying).

All byte-string values are bytes (concrete) or SymBytes; lengths are always concrete.
Sources: SP 800-38A/B/C/D/F, RFC 5297 (SIV), RFC 7253 (OCB3), RFC 8439, Bellare-Rogaway-Wagner (EAX),
RFC 4880 s13.9 (OpenPGP CFB).
"""


def _z(P, n):
    return P.const(bytes(n))


def _blocks(x, bs):
    return [x[i:i + bs] for i in range(0, len(x), bs)]


def _pad0(P, x, bs):
    r = (-len(x)) % bs
    return P.concat(x, bytes(r)) if r else x


# ------------------------------------------------------------------ SP 800-38A

def ecb_enc(P, c, key, pt):
    bs = P_bs(c)
    return P.concat(*[P.E(c, key, b) for b in _blocks(pt, bs)]) if len(pt) else P.const(b"")


def ecb_dec(P, c, key, ct):
    bs = P_bs(c)
    return P.concat(*[P.D(c, key, b) for b in _blocks(ct, bs)]) if len(ct) else P.const(b"")


_BS = dict(AES=16, DES=8, DES3=8, BF=8, CAST=8, ARC2=8)


def P_bs(c):
    if c.startswith("ARC2"):
        return 8
    return _BS[c]


def cbc_enc(P, c, key, iv, pt):
    out = []
    prev = iv
    for b in _blocks(pt, P_bs(c)):
        prev = P.E(c, key, P.xor(b, prev))
        out.append(prev)
    return P.concat(*out) if out else P.const(b"")


def cbc_dec(P, c, key, iv, ct):
    out = []
    prev = iv
    for b in _blocks(ct, P_bs(c)):
        out.append(P.xor(P.D(c, key, b), prev))
        prev = b
    return P.concat(*out) if out else P.const(b"")


def cfb_enc(P, c, key, iv, pt, seg):
    """CFB with s = 8*seg bits.  Partial last segment allowed (stream use)."""
    out = []
    reg = iv
    for s in _blocks(pt, seg):
        o = P.E(c, key, reg)
        cs = P.xor(s, o[:len(s)])
        out.append(cs)
        if len(s) == seg:
            reg = P.concat(reg[seg:], cs)
    return P.concat(*out) if out else P.const(b"")


def cfb_dec(P, c, key, iv, ct, seg):
    out = []
    reg = iv
    for s in _blocks(ct, seg):
        o = P.E(c, key, reg)
        out.append(P.xor(s, o[:len(s)]))
        if len(s) == seg:
            reg = P.concat(reg[seg:], s)
    return P.concat(*out) if out else P.const(b"")


def ofb(P, c, key, iv, data):
    out = []
    o = iv
    for s in _blocks(data, P_bs(c)):
        o = P.E(c, key, o)
        out.append(P.xor(s, o[:len(s)]))
    return P.concat(*out) if out else P.const(b"")


def ctr_blocks(P, prefix, ctr0, clen, suffix, n, little=False):
    """counter blocks T_0..T_{n-1}: prefix || (ctr0 + i mod 2^(8 clen)) || suffix; ctr0 int/SymInt"""
    order = 'little' if little else 'big'
    mask = (1 << (8 * clen)) - 1
    return [P.concat(prefix, P.i2b((ctr0 + i) & mask, clen, order), suffix) for i in range(n)]


def ctr(P, c, key, prefix, ctr0, clen, suffix, data, little=False, skip=0):
    """CTR keystream xor data, starting `skip` bytes into the keystream."""
    bs = P_bs(c)
    if len(data) == 0:
        return P.const(b"")
    nb = (skip + len(data) + bs - 1) // bs
    ks = P.concat(*[P.E(c, key, t) for t in ctr_blocks(P, prefix, ctr0, clen, suffix, nb, little)])
    return P.xor(data, ks[skip:skip + len(data)])


# ------------------------------------------------------------------ SP 800-38B CMAC

def dbl(P, x):
    n = len(x)
    rb = 0x87 if n == 16 else 0x1B
    v = P.b2i(x)
    r = ((v << 1) & ((1 << (8 * n)) - 1)) ^ ((v >> (8 * n - 1)) * rb)
    return P.i2b(r, n)


def cmac(P, c, key, msg, tlen=None):
    bs = P_bs(c)
    L = P.E(c, key, _z(P, bs))
    k1 = dbl(P, L)
    k2 = dbl(P, k1)
    n = len(msg)
    if n > 0 and n % bs == 0:
        body, last = msg[:n - bs], P.xor(msg[n - bs:], k1)
    else:
        r = n % bs
        body = msg[:n - r]
        last = P.xor(P.concat(msg[n - r:], b"\x80", bytes(bs - r - 1)), k2)
    x = _z(P, bs)
    for b in _blocks(body, bs):
        x = P.E(c, key, P.xor(x, b))
    t = P.E(c, key, P.xor(x, last))
    return t if tlen is None else t[:tlen]


# ------------------------------------------------------------------ SP 800-38D GCM

def ghash(P, h, data):
    y = _z(P, 16)
    for b in _blocks(data, 16):
        y = P.gmul(P.xor(y, b), h)
    return y


def gcm(P, c, key, nonce, aad, data, decrypt=False):
    """-> (output, full 16-byte tag).  data = plaintext (encrypt) or ciphertext (decrypt)."""
    h = P.E(c, key, _z(P, 16))
    if len(nonce) == 12:
        j0 = P.concat(nonce, b"\x00\x00\x00\x01")
    else:
        s = (-len(nonce)) % 16
        j0 = ghash(P, h, P.concat(nonce, bytes(s + 8), (8 * len(nonce)).to_bytes(8, 'big')))
    out = ctr(P, c, key, j0[:12], P.b2i(j0[12:]) + 1, 4, P.const(b""), data)
    ct = data if decrypt else out
    s = ghash(P, h, P.concat(_pad0(P, aad, 16), _pad0(P, ct, 16),
                             (8 * len(aad)).to_bytes(8, 'big'), (8 * len(ct)).to_bytes(8, 'big')))
    tag = P.xor(P.E(c, key, j0), s)
    return out, tag


# ------------------------------------------------------------------ SP 800-38C CCM

def ccm_b0_header(P, nonce, alen, mlen, tlen):
    """B_0 || encoded associated-data length, for *declared* lengths (ints)."""
    q = 15 - len(nonce)
    flags = (64 if alen > 0 else 0) | (((tlen - 2) // 2) << 3) | (q - 1)
    b0 = P.concat(bytes([flags]), nonce, mlen.to_bytes(q, 'big'))
    if alen == 0:
        enc = b""
    elif alen < 2 ** 16 - 2 ** 8:
        enc = alen.to_bytes(2, 'big')
    elif alen < 2 ** 32:
        enc = b"\xff\xfe" + alen.to_bytes(4, 'big')
    else:
        enc = b"\xff\xff" + alen.to_bytes(8, 'big')
    return P.concat(b0, enc)


def ccm(P, c, key, nonce, aad, data, tlen, decrypt=False):
    q = 15 - len(nonce)
    pfx = P.concat(bytes([q - 1]), nonce)
    s0 = P.E(c, key, P.concat(pfx, bytes(q)))
    out = ctr(P, c, key, pfx, 1, q, P.const(b""), data)
    pt = out if decrypt else data
    hdr = P.concat(ccm_b0_header(P, nonce, len(aad), len(pt), tlen), aad)
    mac_in = P.concat(_pad0(P, hdr, 16), _pad0(P, pt, 16))
    x = _z(P, 16)
    for b in _blocks(mac_in, 16):
        x = P.E(c, key, P.xor(x, b))
    return out, P.xor(x, s0)[:tlen]


# ------------------------------------------------------------------ EAX

def eax(P, c, key, nonce, aad, data, decrypt=False):
    bs = P_bs(c)

    def omac(t, m):
        return cmac(P, c, key, P.concat(bytes(bs - 1) + bytes([t]), m))
    n_ = omac(0, nonce)
    h_ = omac(1, aad)
    out = ctr(P, c, key, P.const(b""), P.b2i(n_), bs, P.const(b""), data)
    ct = data if decrypt else out
    c_ = omac(2, ct)
    return out, P.xor(P.xor(n_, h_), c_)


# ------------------------------------------------------------------ RFC 5297 SIV

def s2v(P, c, key, comps):
    """comps: non-empty list of strings"""
    d = cmac(P, c, key, _z(P, 16))
    for s in comps[:-1]:
        d = P.xor(dbl(P, d), cmac(P, c, key, s))
    sn = comps[-1]
    if len(sn) >= 16:
        t = P.concat(sn[:len(sn) - 16], P.xor(sn[len(sn) - 16:], d))
    else:
        t = P.xor(dbl(P, d), P.concat(sn, b"\x80", bytes(15 - len(sn))))
    return cmac(P, c, key, t)


def siv_ctr(P, c, k2, v, data):
    q = P.b2i(v) & 0xFFFFFFFFFFFFFFFF7FFFFFFF7FFFFFFF
    return ctr(P, c, k2, P.const(b""), q, 16, P.const(b""), data)


def siv_encrypt(P, c, key, comps, pt):
    """comps: associated components (nonce, when used, last)."""
    h = len(key) // 2
    v = s2v(P, c, key[:h], list(comps) + [pt])
    return siv_ctr(P, c, key[h:], v, pt), v


def siv_decrypt(P, c, key, comps, ct, v):
    """-> (candidate plaintext, recomputed V).  v must be 16 bytes."""
    h = len(key) // 2
    pt = siv_ctr(P, c, key[h:], v, ct)
    return pt, s2v(P, c, key[:h], list(comps) + [pt])


# ------------------------------------------------------------------ RFC 7253 OCB3

def _ntz(i):
    n = 0
    while i & 1 == 0:
        n += 1
        i >>= 1
    return n


def ocb_hash(P, c, key, lstar, ls, a):
    s = _z(P, 16)
    off = _z(P, 16)
    m = len(a) // 16
    for i in range(1, m + 1):
        off = P.xor(off, ls[_ntz(i)])
        s = P.xor(s, P.E(c, key, P.xor(a[16 * (i - 1):16 * i], off)))
    r = len(a) % 16
    if r:
        off = P.xor(off, lstar)
        s = P.xor(s, P.E(c, key, P.xor(P.concat(a[16 * m:], b"\x80", bytes(15 - r)), off)))
    return s


def ocb(P, c, key, nonce, aad, data, tlen, decrypt=False):
    lstar = P.E(c, key, _z(P, 16))
    ldollar = dbl(P, lstar)
    ls = [dbl(P, ldollar)]
    m = len(data) // 16
    need = max(m, len(aad) // 16, 1).bit_length() + 1
    for _ in range(need):
        ls.append(dbl(P, ls[-1]))
    n = P.concat(bytes([((8 * tlen) % 128) << 1 & 0xFF]), bytes(14 - len(nonce)), b"\x01", nonce) \
        if len(nonce) < 15 else P.concat(bytes([(((8 * tlen) % 128) << 1 | 1) & 0xFF]), nonce)
    last = P.b2i(n[15:16])
    bottom = last & 63
    ktop = P.E(c, key, P.concat(n[:15], P.i2b(last & 0xC0, 1)))
    stretch = P.b2i(P.concat(ktop, P.xor(ktop[:8], ktop[1:9])))
    # Offset_0 = Stretch[1+bottom .. 128+bottom]
    off = P.i2b((stretch >> (64 - bottom)) & ((1 << 128) - 1), 16)
    cks = _z(P, 16)
    out = []
    for i in range(1, m + 1):
        off = P.xor(off, ls[_ntz(i)])
        blk = data[16 * (i - 1):16 * i]
        if decrypt:
            o = P.xor(off, P.D(c, key, P.xor(blk, off)))
            cks = P.xor(cks, o)
        else:
            o = P.xor(off, P.E(c, key, P.xor(blk, off)))
            cks = P.xor(cks, blk)
        out.append(o)
    r = len(data) % 16
    if r:
        off = P.xor(off, lstar)
        pad = P.E(c, key, off)
        o = P.xor(data[16 * m:], pad[:r])
        out.append(o)
        p = o if decrypt else data[16 * m:]
        cks = P.xor(cks, P.concat(p, b"\x80", bytes(15 - r)))
    tag = P.xor(P.E(c, key, P.xor(P.xor(cks, off), ldollar)), ocb_hash(P, c, key, lstar, ls, aad))
    return (P.concat(*out) if out else P.const(b"")), tag[:tlen]


# ------------------------------------------------------------------ SP 800-38F KW / KWP

def kw_W(P, c, key, s):
    n = len(s) // 8
    a = s[:8]
    r = [s[8 * i:8 * i + 8] for i in range(1, n)]
    for t in range(1, 6 * (n - 1) + 1):
        i = (t - 1) % (n - 1)
        b = P.E(c, key, P.concat(a, r[i]))
        a = P.xor(b[:8], t.to_bytes(8, 'big'))
        r[i] = b[8:]
    return P.concat(a, *r)


def kw_Winv(P, c, key, s):
    n = len(s) // 8
    a = s[:8]
    r = [s[8 * i:8 * i + 8] for i in range(1, n)]
    for t in range(6 * (n - 1), 0, -1):
        i = (t - 1) % (n - 1)
        b = P.D(c, key, P.concat(P.xor(a, t.to_bytes(8, 'big')), r[i]))
        a = b[:8]
        r[i] = b[8:]
    return P.concat(a, *r)


def kwp_wrap(P, c, key, pt):
    pad = (-len(pt)) % 8
    s = P.concat(b"\xa6\x59\x59\xa6", len(pt).to_bytes(4, 'big'), pt, bytes(pad))
    if len(s) == 16:
        return P.E(c, key, s)
    return kw_W(P, c, key, s)


def kwp_unwrap_S(P, c, key, ct):
    if len(ct) == 16:
        return P.D(c, key, ct)
    return kw_Winv(P, c, key, ct)


# ------------------------------------------------------------------ RFC 8439 ChaCha20-Poly1305

def chacha_block(P, key, nonce, counter):
    """64-byte keystream block as a UF of (key, state words 12..15)."""
    if len(nonce) == 12:
        tail = P.concat(P.i2b(counter, 4, 'little'), nonce)
    else:
        tail = P.concat(P.i2b(counter, 8, 'little'), nonce)
    return P.uf("CHACHA20_BLOCK", [key, tail], 64)


def chacha_stream(P, key, nonce, counter0, data, skip=0):
    if len(data) == 0:
        return P.const(b"")
    nb = (skip + len(data) + 63) // 64
    ks = P.concat(*[chacha_block(P, key, nonce, counter0 + i) for i in range(nb)])
    return P.xor(data, ks[skip:skip + len(data)])


def hchacha(P, key, nonce16):
    return P.uf("HCHACHA20", [key, nonce16], 32)


def chacha_params(P, key, nonce):
    """RFC 8439 / XChaCha draft: -> (effective key, effective nonce bytes as seen by the block fn)"""
    if len(nonce) == 24:
        return hchacha(P, key, nonce[:16]), P.concat(b"\x00\x00\x00\x00", nonce[16:])
    return key, nonce


def poly1305(P, r, s, msg):
    return P.uf("POLY1305", [r, s, msg], 16)


def chacha20_poly1305(P, key, nonce, aad, data, decrypt=False):
    k, n = chacha_params(P, key, nonce)
    otk = chacha_block(P, k, n, 0)[:32]
    out = chacha_stream(P, k, n, 1, data)
    ct = data if decrypt else out
    mac_data = P.concat(_pad0(P, aad, 16), _pad0(P, ct, 16), len(aad).to_bytes(8, 'little'),
                        len(ct).to_bytes(8, 'little'))
    return out, poly1305(P, otk[:16], otk[16:], mac_data)
