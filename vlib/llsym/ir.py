"""Parser for the subset of clang-14 textual LLVM IR (typed pointers) produced by
   clang -S -emit-llvm -O0 -Xclang -disable-O0-optnone  |  opt -mem2reg
for the C kernels of /repo/src.  Anything outside the subset raises Unsupported (-> inconclusive)."""
import re


class Unsupported(Exception):
    pass


# ---------------------------------------------------------------------------------------------
# types

class Ty(object):
    __slots__ = ('k', 'bits', 'elem', 'n', 'fields', 'packed', 'name', 'size', 'align', 'offsets')

    def __init__(self, k, **kw):
        self.k = k
        self.bits = self.elem = self.n = self.fields = self.name = None
        self.packed = False
        self.size = self.align = self.offsets = None
        for a, b in kw.items():
            setattr(self, a, b)

    def __repr__(self):
        if self.k == 'int':
            return "i%d" % self.bits
        if self.k == 'ptr':
            return "%r*" % (self.elem,)
        if self.k == 'array':
            return "[%d x %r]" % (self.n, self.elem)
        if self.k == 'struct':
            return "%%%s" % self.name if self.name else "{...}"
        return self.k


VOID = Ty('void')
_INTS = {}


def int_ty(bits):
    t = _INTS.get(bits)
    if t is None:
        t = _INTS[bits] = Ty('int', bits=bits)
        t.size = max(1, (bits + 7) // 8)
        if bits > 64:
            t.size = 16
        # natural alignment on x86-64
        t.align = min(16, 1 << (t.size - 1).bit_length()) if t.size > 1 else 1
    return t


def ptr_ty(elem):
    t = Ty('ptr', elem=elem)
    t.size = t.align = 8
    return t


_TOK = re.compile(r'''\s*(?:
    (?P<str>c"(?:[^"\\]|\\.)*")|
    (?P<id>[%@](?:"[^"]*"|[-a-zA-Z$._0-9]+))|
    (?P<num>-?\d+)|
    (?P<word>[a-zA-Z_][a-zA-Z_0-9.]*)|
    (?P<dots>\.\.\.)|
    (?P<p>[(){}\[\]<>,*=!#:])
)''', re.X)


def tokenize(s):
    out = []
    pos = 0
    n = len(s)
    while pos < n:
        m = _TOK.match(s, pos)
        if not m:
            if s[pos:].strip() == '':
                break
            raise Unsupported("cannot tokenize: %r" % s[pos:pos + 40])
        pos = m.end()
        k = m.lastgroup
        out.append((k, m.group(k)))
    return out


class Module(object):
    def __init__(self):
        self.structs = {}        # name -> Ty
        self.globals = {}        # name -> (Ty, init, is_const)
        self.funcs = {}          # name -> Function
        self.declared = set()
        self.source = None


class Function(object):
    def __init__(self, name, ret, params):
        self.name, self.ret, self.params = name, ret, params
        self.blocks = {}         # label -> list of instr tuples
        self.entry = None
        self.ninstr = 0


class P(object):
    """token stream"""

    def __init__(self, toks, mod):
        self.t, self.i, self.mod = toks, 0, mod

    def peek(self, k=0):
        j = self.i + k
        return self.t[j] if j < len(self.t) else (None, None)

    def next(self):
        r = self.peek()
        self.i += 1
        return r

    def accept(self, v):
        if self.peek()[1] == v:
            self.i += 1
            return True
        return False

    def expect(self, v):
        k, x = self.next()
        if x != v:
            raise Unsupported("expected %r got %r near %r" % (v, x, self.t[max(0, self.i - 6):self.i + 3]))

    # -- types
    def ty(self):
        k, v = self.next()
        if k == 'word':
            if v == 'void':
                t = VOID
            elif v[0] == 'i' and v[1:].isdigit():
                t = int_ty(int(v[1:]))
            elif v in ('float', 'double', 'x86_fp80', 'half'):
                raise Unsupported("floating point type")
            elif v == 'opaque':
                t = Ty('opaque')
            elif v in ('label', 'metadata'):
                t = Ty(v)
            else:
                raise Unsupported("type %r" % v)
        elif k == 'id' and v[0] == '%':
            name = v[1:].strip('"')
            t = self.mod.structs.get(name)
            if t is None:
                t = self.mod.structs[name] = Ty('struct', name=name)
        elif v == '[':
            n = int(self.next()[1])
            if self.next()[1] != 'x':
                raise Unsupported("array syntax")
            e = self.ty()
            self.expect(']')
            t = Ty('array', n=n, elem=e)
        elif v == '{':
            t = Ty('struct', fields=self._fields('}'))
        elif v == '<':
            if self.peek()[1] == '{':
                self.next()
                t = Ty('struct', fields=self._fields('}'), packed=True)
                self.expect('>')
            else:
                raise Unsupported("vector type")
        else:
            raise Unsupported("type token %r" % (v,))
        while True:
            if self.accept('*'):
                t = ptr_ty(t)
            elif self.peek()[1] == '(':
                # function type:  ret (args)
                self.next()
                depth = 1
                while depth:
                    x = self.next()[1]
                    if x == '(':
                        depth += 1
                    elif x == ')':
                        depth -= 1
                    elif x is None:
                        raise Unsupported("unterminated function type")
                t = Ty('func', elem=t)
            else:
                break
        return t

    def _fields(self, close):
        fs = []
        if self.accept(close):
            return fs
        while True:
            fs.append(self.ty())
            if self.accept(close):
                return fs
            self.expect(',')

    # -- values
    def skip_attrs(self):
        while True:
            k, v = self.peek()
            if k == 'word' and v in _PARAM_ATTRS:
                self.next()
                if v == 'align' and self.peek()[0] == 'num':
                    self.next()
                    continue
                if self.peek()[1] == '(':
                    depth = 0
                    while True:
                        x = self.next()[1]
                        if x == '(':
                            depth += 1
                        elif x == ')':
                            depth -= 1
                            if depth == 0:
                                break
            else:
                return

    def value(self, ty):
        k, v = self.next()
        if k == 'id':
            if v[0] == '%':
                return ('r', v[1:].strip('"'))
            return ('g', v[1:].strip('"'))
        if k == 'num':
            return ('c', int(v))
        if k == 'word':
            if v == 'null':
                return ('null',)
            if v in ('undef', 'poison'):
                return ('undef',)
            if v == 'true':
                return ('c', 1)
            if v == 'false':
                return ('c', 0)
            if v == 'zeroinitializer':
                return ('zero',)
            if v == 'getelementptr':
                self.accept('inbounds')
                self.expect('(')
                bt = self.ty()
                self.expect(',')
                pt = self.ty()
                base = self.value(pt)
                idx = []
                while self.accept(','):
                    self.accept('inrange')
                    it = self.ty()
                    idx.append(self.value(it))
                self.expect(')')
                return ('cgep', bt, base, idx)
            if v in ('bitcast', 'inttoptr', 'ptrtoint', 'addrspacecast'):
                self.expect('(')
                t1 = self.ty()
                x = self.value(t1)
                if self.next()[1] != 'to':
                    raise Unsupported("cast syntax")
                t2 = self.ty()
                self.expect(')')
                return ('ccast', v, x, t1, t2)
            raise Unsupported("constant %r" % v)
        if k == 'str':
            return ('bytes', _cstring(v))
        if v == '[':
            items = []
            if not self.accept(']'):
                while True:
                    it = self.ty()
                    items.append((it, self.value(it)))
                    if self.accept(']'):
                        break
                    self.expect(',')
            return ('agg', items)
        if v == '{' or v == '<':
            if v == '<':
                self.expect('{')
            items = []
            if not self.accept('}'):
                while True:
                    it = self.ty()
                    items.append((it, self.value(it)))
                    if self.accept('}'):
                        break
                    self.expect(',')
            if v == '<':
                self.expect('>')
            return ('agg', items)
        raise Unsupported("value token %r" % (v,))


_PARAM_ATTRS = set("""noundef nonnull noalias nocapture readonly writeonly readnone signext zeroext inreg byval sret
align dereferenceable dereferenceable_or_null immarg returned nofree nosync nounwind willreturn
mustprogress noinline optnone uwtable dso_local local_unnamed_addr unnamed_addr internal private external
hidden tail notail musttail fastcc ccc nsw nuw exact inbounds volatile""".split())


def _cstring(tok):
    s = tok[2:-1]
    out = bytearray()
    i = 0
    while i < len(s):
        if s[i] == '\\':
            if s[i + 1] == '\\':
                out.append(92)
                i += 2
            else:
                out.append(int(s[i + 1:i + 3], 16))
                i += 3
        else:
            out.append(ord(s[i]))
            i += 1
    return bytes(out)


# ---------------------------------------------------------------------------------------------
# layout

def layout(t):
    """fills size/align/offsets"""
    if t.size is not None:
        return t
    if t.k == 'array':
        layout(t.elem)
        t.size = t.elem.size * t.n
        t.align = t.elem.align
    elif t.k == 'struct':
        if t.fields is None:
            raise Unsupported("opaque struct %s laid out" % t.name)
        off = 0
        al = 1
        t.offsets = []
        for f in t.fields:
            layout(f)
            a = 1 if t.packed else f.align
            off = (off + a - 1) // a * a
            t.offsets.append(off)
            off += f.size
            al = max(al, a)
        t.size = (off + al - 1) // al * al if not t.packed else off
        t.align = al
    elif t.k in ('func', 'void', 'opaque'):
        t.size, t.align = 0, 1
    else:
        raise Unsupported("layout of %r" % t.k)
    return t


# ---------------------------------------------------------------------------------------------
# module parsing

_BINOPS = set("add sub mul udiv sdiv urem srem shl lshr ashr and or xor".split())
_CASTS = set("zext sext trunc bitcast ptrtoint inttoptr".split())


def parse(text, source=None):
    mod = Module()
    mod.source = source
    lines = text.split('\n')
    i = 0
    n = len(lines)
    cur = None
    block = None
    while i < n:
        line = lines[i]
        i += 1
        s = line.split(' ;')[0] if ' ;' in line and 'c"' not in line else line
        s = s.strip()
        if not s or s[0] == ';':
            continue
        if cur is None:
            if s.startswith('%') and ' = type ' in s:
                name, rest = s.split(' = type ', 1)
                name = name[1:].strip('"')
                p = P(tokenize(rest), mod)
                if p.peek()[1] == 'opaque':
                    mod.structs.setdefault(name, Ty('struct', name=name))
                else:
                    t = p.ty()
                    ex = mod.structs.get(name)
                    if ex is None:
                        t.name = name
                        mod.structs[name] = t
                    else:
                        ex.fields, ex.packed = t.fields, t.packed
                continue
            if s.startswith('@'):
                _parse_global(mod, s)
                continue
            if s.startswith('declare'):
                m = re.search(r'@([-a-zA-Z$._0-9]+)\(', s)
                if m:
                    mod.declared.add(m.group(1))
                continue
            if s.startswith('define'):
                cur = _parse_define(mod, s)
                block = None
                continue
            continue        # target, attributes, metadata, source_filename
        # inside a function
        if s == '}':
            mod.funcs[cur.name] = cur
            cur = None
            continue
        m = re.match(r'^([-a-zA-Z$._0-9]+):', s)
        if m:
            block = cur.blocks[m.group(1)] = []
            continue
        if block is None:
            # first block is unnamed: its label is the next unused number = number of params
            lbl = str(len(cur.params))
            block = cur.blocks[lbl] = []
            cur.entry = lbl
        if s.startswith('switch') or (' switch ' in s):
            while not lines[i - 1].rstrip().endswith(']'):
                s += ' ' + lines[i].strip()
                i += 1
        block.append(_parse_instr(mod, s))
        cur.ninstr += 1
    return mod


def _parse_global(mod, s):
    name, rest = s.split(' = ', 1)
    name = name[1:].strip('"')
    toks = tokenize(rest.split(', align')[0].split(', section')[0].split(', comdat')[0])
    p = P(toks, mod)
    is_const = False
    while True:
        k, v = p.peek()
        if v in ('global', 'constant'):
            is_const = v == 'constant'
            p.next()
            break
        if k == 'word':
            p.next()
            if p.peek()[1] == '(':          # e.g. thread_local(...)
                while p.next()[1] != ')':
                    pass
        else:
            raise Unsupported("global %s" % name)
    t = p.ty()
    init = None
    if p.peek()[0] is not None:
        init = p.value(t)
    mod.globals[name] = (t, init, is_const)


def _parse_define(mod, s):
    head = s[:s.rindex('{')]
    m = re.search(r'@("[^"]*"|[-a-zA-Z$._0-9]+)\s*\(', head)
    name = m.group(1).strip('"')
    before = head[:m.start()]
    args = head[m.end():head.rindex(')')]
    p = P(tokenize(before), mod)
    p.next()        # define
    p.skip_attrs()
    ret = p.ty()
    params = []
    pa = P(tokenize(args), mod)
    while pa.peek()[0] is not None:
        if pa.peek()[0] == 'dots':
            raise Unsupported("variadic definition")
        t = pa.ty()
        pa.skip_attrs()
        k, v = pa.next()
        if k != 'id':
            raise Unsupported("unnamed parameter in %s" % name)
        params.append((t, v[1:]))
        pa.accept(',')
    return Function(name, ret, params)


def _parse_instr(mod, s):
    p = P(tokenize(s), mod)
    dest = None
    if p.peek()[0] == 'id' and p.peek(1)[1] == '=':
        dest = p.next()[1][1:].strip('"')
        p.next()
    k, op = p.next()
    if op in ('tail', 'notail', 'musttail'):
        k, op = p.next()
    if op in _BINOPS:
        p.skip_attrs()
        t = p.ty()
        a = p.value(t)
        p.expect(',')
        b = p.value(t)
        return (op, dest, t, a, b)
    if op == 'load':
        p.accept('volatile')
        t = p.ty()
        p.expect(',')
        pt = p.ty()
        return ('load', dest, t, p.value(pt))
    if op == 'store':
        p.accept('volatile')
        t = p.ty()
        v = p.value(t)
        p.expect(',')
        pt = p.ty()
        return ('store', None, t, v, p.value(pt))
    if op == 'getelementptr':
        p.accept('inbounds')
        bt = p.ty()
        p.expect(',')
        pt = p.ty()
        base = p.value(pt)
        idx = []
        while p.accept(','):
            it = p.ty()
            idx.append((it, p.value(it)))
        return ('gep', dest, bt, base, idx)
    if op == 'icmp':
        pred = p.next()[1]
        t = p.ty()
        a = p.value(t)
        p.expect(',')
        b = p.value(t)
        return ('icmp', dest, pred, t, a, b)
    if op in _CASTS:
        t1 = p.ty()
        v = p.value(t1)
        if p.next()[1] != 'to':
            raise Unsupported("cast syntax")
        t2 = p.ty()
        return ('cast', dest, op, t1, v, t2)
    if op == 'br':
        if p.peek()[1] == 'label':
            p.next()
            return ('jmp', None, p.next()[1][1:])
        t = p.ty()
        c = p.value(t)
        p.expect(',')
        p.expect('label')
        a = p.next()[1][1:]
        p.expect(',')
        p.expect('label')
        b = p.next()[1][1:]
        return ('br', None, c, a, b)
    if op == 'ret':
        t = p.ty()
        if t.k == 'void':
            return ('ret', None, t, None)
        return ('ret', None, t, p.value(t))
    if op == 'phi':
        t = p.ty()
        inc = []
        while True:
            p.expect('[')
            v = p.value(t)
            p.expect(',')
            lbl = p.next()[1][1:]
            p.expect(']')
            inc.append((lbl, v))
            if not p.accept(','):
                break
        return ('phi', dest, t, dict(inc))
    if op == 'select':
        ct = p.ty()
        c = p.value(ct)
        p.expect(',')
        t = p.ty()
        a = p.value(t)
        p.expect(',')
        t2 = p.ty()
        b = p.value(t2)
        return ('select', dest, t, c, a, b)
    if op == 'alloca':
        t = p.ty()
        cnt = None
        if p.accept(','):
            if p.peek()[1] != 'align':
                ct = p.ty()
                cnt = p.value(ct)
        return ('alloca', dest, t, cnt)
    if op == 'call':
        p.skip_attrs()
        rt = p.ty()           # return type, or full function type (then a 'func' Ty wrapping ret)
        if rt.k == 'ptr' and rt.elem.k == 'func':
            rt = rt.elem.elem
        elif rt.k == 'func':
            rt = rt.elem
        k, v = p.next()
        if k != 'id':
            raise Unsupported("call target %r in %r" % (v, s[:80]))
        callee = ('g', v[1:]) if v[0] == '@' else ('r', v[1:])
        p.expect('(')
        args = []
        if not p.accept(')'):
            while True:
                at = p.ty()
                p.skip_attrs()
                args.append((at, p.value(at)))
                if p.accept(')'):
                    break
                p.expect(',')
        return ('call', dest, rt, callee, args)
    if op == 'switch':
        t = p.ty()
        v = p.value(t)
        p.expect(',')
        p.expect('label')
        default = p.next()[1][1:]
        p.expect('[')
        cases = []
        while not p.accept(']'):
            ct = p.ty()
            cv = p.value(ct)
            p.expect(',')
            p.expect('label')
            cases.append((cv[1], p.next()[1][1:]))
        return ('switch', None, t, v, default, cases)
    if op == 'unreachable':
        return ('unreachable', None)
    if op in ('extractvalue', 'insertvalue'):
        raise Unsupported("aggregate SSA value (%s)" % op)
    raise Unsupported("instruction %r in %r" % (op, s[:100]))
