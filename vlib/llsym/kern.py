"""One API over (a) the LLSYM machine (symbolic) and (b) the real C compiled by gcc and called through
ctypes (concrete replay / validation), so kernel-level harnesses run in both modes."""
import ctypes
import os
import shutil
import subprocess
import tempfile


class SymKernel(object):
    sym = True

    def __init__(self, env, cfile, stubs=None, extra_macros=()):
        from . import build, exe
        self.exe = exe
        self.env = env
        self.m = exe.Machine(build.module(cfile, extra_macros), stubs=stubs)
        self.cfile = cfile

    def buf(self, data, writable=True, name="buf", misalign=0):
        from vlib.pysym import core
        elems = list(data) if isinstance(data, list) else core.to_elems(data)
        o = self.m.buf(elems, name=name, writable=writable, misalign=misalign)
        return self.exe.Ptr(o, 0)

    def out(self, n, name="out", misalign=0):
        o = self.m.new_obj(n, 'arg', name, init=self.exe.UNINIT, misalign=misalign)
        return self.exe.Ptr(o, 0)

    def at(self, p, off):
        return self.exe.Ptr(p.obj, p.off + off)

    def null(self):
        return 0

    def call(self, fname, *args, signed=True, bits=32):
        from vlib.pysym import core
        import z3
        argv = []
        fn = self.m.mod.funcs.get(fname)
        for i, a in enumerate(args):
            pt = fn.params[i][0] if fn is not None and i < len(fn.params) else None
            w = pt.bits if pt is not None and pt.k == 'int' else 64
            if isinstance(a, core.SymInt):
                # C size_t / unsigned arguments: the harness passes non-negative values
                e = a.e
                e = z3.Extract(w - 1, 0, e) if a.w > w else (z3.ZeroExt(w - a.w, e) if a.w < w else e)
                argv.append(e)
            elif type(a) is int and pt is not None and pt.k == 'int':
                argv.append(a & ((1 << w) - 1))
            else:
                argv.append(a)
        n_ev = len(self.m.mem_events)
        try:
            r = self.m.call(fname, argv)
        except self.exe.PathDead:
            if len(self.m.mem_events) > n_ev and self.env is not None:
                self.check_memory_safe("memory safety of %s()" % fname)
            if len(self.m.mem_events) > n_ev:
                k, d, _ = self.m.mem_events[-1]
                raise core.Inconclusive("memory-safety event inside bridged C call %s: %s %s" % (fname, k, d))
            raise core.PathAbort()
        if len(self.m.mem_events) > n_ev and self.env is not None:
            # a feasible path of this call performed an illegal access: that path was cut, so report now
            self.check_memory_safe("memory safety of %s()" % fname)
        if r is None or isinstance(r, (self.exe.Ptr, self.exe.Fn)):
            return r
        if type(r) is int:
            if signed and r >> (bits - 1):
                r -= 1 << bits
            return r
        bits = r.size()
        if signed:
            return core.SymInt.make(r, bits)
        return core.SymInt.make(z3.ZeroExt(1, r), bits + 1, nn=True)

    def read(self, p, n, off=0):
        from vlib.pysym import core
        self.m._check(self.exe.Ptr(p.obj, p.off + off), n, False)
        return core.SymBytes(self.m.read_obj(p.obj, p.off + off, n))

    def read_ptr(self, p, off=0):
        return self.m.load(self.exe.Ptr(p.obj, p.off + off), 8)

    def arg(self, v, bits=64):
        """symbolic integer argument from a SymInt"""
        return v

    def memory_violations(self):
        """-> list of (kind, detail, conds) found on feasible paths so far"""
        return list(self.m.mem_events)

    def check_memory_safe(self, label="no out-of-bounds / use-after-free / bad free on any feasible path"):
        import z3
        ev = self.m.mem_events
        if not ev:
            self.env.check(True, label)
            return
        kind, detail, conds = ev[0]
        # the path condition under which the bad access happens is feasible (it was explored): report it
        c = self.env.c
        c.solver.push()
        for x in conds:
            c.solver.add(x)
        try:
            self.env.check(False, "%s [%s: %s]" % (label, kind, detail))
        finally:
            c.solver.pop()

    def live_heap(self):
        return [(o.name, o.size) for o in self.m.live_heap()]

    def written_objects(self):
        return [o.name for o in self.m.objs if o.written and o.kind in ('global', 'arg')]

    def heap_ids(self):
        """ids of the live heap objects (to tell apart what an object owns from what a later call allocates)"""
        return set(o.oid for o in self.m.live_heap())

    def heap_written(self, ids):
        """names of the heap objects among ids written since reset_written()"""
        return sorted("%s#%d(%d bytes)" % (o.name, o.oid, o.size) for o in self.m.objs if o.oid in ids and o.written)

    def reset_written(self):
        for o in self.m.objs:
            o.written = False

    def check_frame(self, allowed_prefixes, label="writes are confined to the object's own state and the designated output buffers"):
        """frame condition: among caller-visible objects (arguments, module globals) only the designated
        ones were written; module globals are never written (no writable statics => distinct objects
        cannot influence each other, sequentially or from several threads)"""
        bad = [n for n in self.written_objects() if not n.startswith(tuple(allowed_prefixes))]
        self.env.check(not bad, label + (" [written: %s]" % ", ".join(bad) if bad else ""))

    def callback(self, name, fn, nargs_bytes):
        """function pointer argument served by Python: fn(list of byte-element lists) -> (return value, {arg index: bytes
        to write}); nargs_bytes = [(arg index, length, is_output), ...] describes the pointer arguments"""
        def stub(mach, a):
            ins = []
            for idx, n, is_out in nargs_bytes:
                if is_out:
                    ins.append(None)
                    continue
                mach._check(a[idx], n, False)
                ins.append([mach._byte(*mach._at(a[idx], i)) for i in range(n)])
            rv, outs = fn(ins)
            for idx, data in outs.items():
                from vlib.pysym import core as _pc
                data = _pc.to_elems(data)
                mach._check(a[idx], len(data), True)
                for i, x in enumerate(data):
                    mach._store_raw(a[idx].obj, a[idx].off + i, 1, x)
            return rv
        self.m.stubs[name] = stub
        return self.exe.Fn(name)

    def field_off(self, struct, idx):
        from . import ir
        t = self.m.mod.structs[struct]
        ir.layout(t)
        return t.offsets[idx]

    def sizeof(self, struct):
        from . import ir
        return ir.layout(self.m.mod.structs[struct]).size

    def peek(self, p, off, n):
        """integer field of a C object"""
        from vlib.pysym import core
        import z3
        v = self.m.load(self.exe.Ptr(p.obj, p.off + off), n)
        if type(v) is int:
            return v
        return core.SymInt.make(z3.ZeroExt(1, v), 8 * n + 1, nn=True)

    def poke(self, p, off, n, v):
        from vlib.pysym import core
        import z3
        if isinstance(v, core.SymInt):
            e = v.e
            v = z3.Extract(8 * n - 1, 0, e) if v.w > 8 * n else (z3.ZeroExt(8 * n - v.w, e) if v.w < 8 * n else e)
        self.m.store(self.exe.Ptr(p.obj, p.off + off), n, v)

    def deref(self, p, off=0):
        """pointer stored at p+off"""
        return self.m.load(self.exe.Ptr(p.obj, p.off + off), 8)

    def ptr_slot(self):
        """an 8-byte out-parameter for `T **pResult`"""
        o = self.m.new_obj(8, 'arg', 'pResult', init=0)
        return self.exe.Ptr(o, 0)

    def block_cipher(self, name, key, block_len):
        """a BlockBase {encrypt, decrypt, destructor, block_len} whose encrypt/decrypt are the
        uninterpreted E/D of vlib.pysym.natives (bijective per key)"""
        from vlib.pysym import natives, core
        m = self.m
        exe = self.exe
        kelems = core.to_elems(key)
        o = m.new_obj(32, 'heap', 'BlockBase(%s)' % name, init=0)
        me = self

        def enc(mach, a, dec=False):
            st, inp, outp, n = a
            n = mach._cint(n)
            if n % block_len:
                return 3
            data = [mach._byte(*mach._at(inp, i)) for i in range(n)]
            mach._check(inp, n, False)
            res = []
            for i in range(0, n, block_len):
                blk = data[i:i + block_len]
                res.extend(natives.D(name, kelems, blk) if dec else natives.E(name, kelems, blk))
            mach._check(outp, n, True)
            for i, x in enumerate(res):
                mach._store_raw(outp.obj, outp.off + i, 1, x)
            return 0

        def destructor(mach, a):
            mach.free(a[0])
            return 0
        tag = "%d" % o.oid
        m.stubs['stub_enc_' + tag] = lambda mach, a: enc(mach, a, False)
        m.stubs['stub_dec_' + tag] = lambda mach, a: enc(mach, a, True)
        m.stubs['stub_del_' + tag] = destructor
        m._store_raw(o, 0, 8, exe.Fn('stub_enc_' + tag))
        m._store_raw(o, 8, 8, exe.Fn('stub_dec_' + tag))
        m._store_raw(o, 16, 8, exe.Fn('stub_del_' + tag))
        m._store_raw(o, 24, 8, block_len)
        o.written = False
        return exe.Ptr(o, 0)


# ---------------------------------------------------------------------------------------------

_MACROS = ["HAVE_STDINT_H", "PYCRYPTO_LITTLE_ENDIAN", "SYS_BITS=64", "LTC_NO_ASM", "HAVE_UINT128",
           "HAVE_CPUID_H", "HAVE_POSIX_MEMALIGN", "NDEBUG"]
_libs = {}
# translation units the real build links together with the kernel's file (replay / validation only)
EXTRA_SOURCES = {'mod25519.c': ['multiply_64.c'], 'bignum.c': ['multiply_64.c'], 'curve448.c': ['mont.c'],
                 'ec_ws.c+mont.c': ['p256_table.c', 'p384_table.c', 'p521_table.c']}



_SHIM = r"""
#include <stdlib.h>
#include <string.h>
#define MAXA 8192
static void *vk_ptr[MAXA]; static size_t vk_size[MAXA]; static int vk_alive[MAXA]; static int vk_n;
void *__real_malloc(size_t); void *__real_calloc(size_t, size_t); void __real_free(void *);
int __real_posix_memalign(void **, size_t, size_t);
static void rec(void *p, size_t n) { if (p && vk_n < MAXA) { vk_ptr[vk_n] = p; vk_size[vk_n] = n; vk_alive[vk_n] = 1; vk_n++; } }
void *__wrap_malloc(size_t n) { void *p = __real_malloc(n); rec(p, n); return p; }
void *__wrap_calloc(size_t a, size_t b) { void *p = __real_calloc(a, b); rec(p, a * b); return p; }
int __wrap_posix_memalign(void **pp, size_t al, size_t n) { int r = __real_posix_memalign(pp, al, n); if (!r) rec(*pp, n); return r; }
void __wrap_free(void *p) { int i; for (i = vk_n - 1; i >= 0; i--) if (vk_alive[i] && vk_ptr[i] == p) { vk_alive[i] = 0; break; } __real_free(p); }
int vk_count(void) { return vk_n; }
void *vk_addr(int i) { return vk_ptr[i]; }
size_t vk_len(int i) { return vk_size[i]; }
int vk_is_alive(int i) { return vk_alive[i]; }
"""


def _compile(cfile, extra_macros=(), sanitize=False):
    key = (cfile, tuple(extra_macros), sanitize)
    if key in _libs:
        return _libs[key]
    src = os.path.join(os.environ.get("VERIF_REPO", "/repo"), "src")
    d = tempfile.mkdtemp(prefix="creal_")
    so = os.path.join(d, "k.so")
    cmd = ["gcc", "-shared", "-fPIC", "-O1", "-w", "-I", src, "-I", os.path.join(src, "libtom")]
    for m in _MACROS + list(extra_macros):
        cmd.append("-D" + m)
    if sanitize:
        cmd += ["-fsanitize=address", "-fno-omit-frame-pointer"]
    # allocation tracker (link-time wrappers): lets the concrete replay see which heap blocks a call writes
    shim = os.path.join(d, "vk_shim.c")
    with open(shim, "w") as f:
        f.write(_SHIM)
    cmd += ["-Wl,--wrap=malloc", "-Wl,--wrap=calloc", "-Wl,--wrap=free", "-Wl,--wrap=posix_memalign", shim]
    cmd += [os.path.join(src, x) for x in cfile.split('+')] + [os.path.join(src, x) for x in EXTRA_SOURCES.get(cfile, [])] + ["-o", so]
    r = subprocess.run(cmd, capture_output=True, text=True)
    if r.returncode != 0:
        shutil.rmtree(d, ignore_errors=True)
        raise RuntimeError("gcc failed: " + r.stderr[-800:])
    lib = ctypes.CDLL(so)
    shutil.rmtree(d, ignore_errors=True)      # the mapping stays valid after unlink
    _libs[key] = lib
    return lib


class _CBuf(object):
    def __init__(self, arr, n, base=None, off=0):
        self.arr, self.n, self.base, self.off = arr, n, base if base is not None else arr, off

    def addr(self):
        return ctypes.addressof(self.base) + self.off


class RealKernel(object):
    sym = False
    GUARD = 64

    def __init__(self, env, cfile, stubs=None, extra_macros=()):
        self.env = env
        self.lib = _compile(cfile, extra_macros, sanitize=bool(os.environ.get('VERIF_ASAN')))
        self.cfile = cfile
        self.extra_macros = tuple(extra_macros)
        self.bufs = []
        self.stubs = stubs or {}
        self.corrupt = []

    def buf(self, data, writable=True, name="buf", misalign=0):
        data = bytes(data)
        g = self.GUARD
        arr = (ctypes.c_ubyte * (len(data) + 2 * g + misalign))()
        for i in range(len(arr)):
            arr[i] = 0xA5
        for i, x in enumerate(data):
            arr[g + misalign + i] = x
        b = _CBuf(arr, len(data), arr, g + misalign)
        self.bufs.append((b, name, bytes(data) if not writable else None))
        return b

    def out(self, n, name="out", misalign=0):
        return self.buf(bytes([0x5A]) * n, True, name, misalign)

    def at(self, p, off):
        return _CBuf(p.arr, p.n - off, p.base, p.off + off)

    def null(self):
        return None

    def call(self, fname, *args, signed=True, bits=32):
        f = getattr(self.lib, fname)
        f.restype = {(True, 32): ctypes.c_int32, (False, 32): ctypes.c_uint32, (True, 64): ctypes.c_int64,
                     (False, 64): ctypes.c_uint64}[(signed, bits)]
        argv = []
        for a in args:
            if isinstance(a, _CBuf):
                argv.append(ctypes.c_void_p(a.addr()))
            elif a is None:
                argv.append(ctypes.c_void_p(0))
            elif isinstance(a, (ctypes._SimpleCData, ctypes._CFuncPtr)) or hasattr(a, '_type_') or hasattr(a, '_fields_'):
                argv.append(a)
            else:
                argv.append(ctypes.c_uint64(int(a) & 0xFFFFFFFFFFFFFFFF))
        r = f(*argv)
        self._scan_guards()
        return r

    def _scan_guards(self):
        g = self.GUARD
        for b, name, const in self.bufs:
            arr = b.base
            lo = b.off
            for i in list(range(0, lo)) + list(range(lo + b.n, len(arr))):
                if arr[i] != 0xA5:
                    self.corrupt.append("guard byte %d of %s overwritten" % (i - lo, name))
                    break
            if const is not None and bytes(arr[lo:lo + b.n]) != const:
                self.corrupt.append("read-only buffer %s modified" % name)

    def read(self, p, n, off=0):
        return bytes(p.base[p.off + off:p.off + off + n])

    def read_ptr(self, p, off=0):
        return int.from_bytes(self.read(p, 8, off), 'little')

    def memory_violations(self):
        return [("guard", c, []) for c in self.corrupt]

    def check_memory_safe(self, label="no out-of-bounds / use-after-free / bad free on any feasible path"):
        self.env.check(not self.corrupt, label + (" [%s]" % self.corrupt[0] if self.corrupt else ""))

    def live_heap(self):
        return []

    def written_objects(self):
        return []

    def _heap(self):
        L = self.lib
        L.vk_addr.restype = ctypes.c_void_p
        L.vk_len.restype = ctypes.c_size_t
        out = {}
        for i in range(L.vk_count()):
            if L.vk_is_alive(i):
                out[i] = (L.vk_addr(i), L.vk_len(i))
        return out

    def heap_ids(self):
        return set(self._heap())

    def reset_written(self):
        self._snap = dict((i, ctypes.string_at(a, n)) for i, (a, n) in self._heap().items())

    def heap_written(self, ids):
        snap = getattr(self, '_snap', {})
        cur = self._heap()
        return sorted("heap#%d(%d bytes)" % (i, cur[i][1]) for i in ids if i in cur and i in snap and ctypes.string_at(*cur[i]) != snap[i])

    def check_frame(self, allowed_prefixes, label=""):
        self.env.check(not self.corrupt, "read-only buffers unchanged")
        # module-private storage cannot be observed through ctypes: confirm writable statics on the compiled IR
        from . import build
        bad = build.written_globals(self.cfile, self.extra_macros)
        self.env.check(not bad, "no module global is written (no writable static) [written: %s]" % ", ".join(bad))

    _OFFS = {}

    def field_off(self, struct, idx):
        # same x86-64 layout as computed from the IR: ask the IR (no z3 needed for layout)
        from . import build, ir
        key = (self.cfile, struct)
        t = self._OFFS.get(key)
        if t is None:
            t = build.module(self.cfile).structs[struct]
            ir.layout(t)
            self._OFFS[key] = t
        return t.offsets[idx]

    def peek(self, p, off, n):
        if isinstance(p, int):
            return int.from_bytes(ctypes.string_at(p + off, n), 'little')
        return int.from_bytes(self.read(p, n, off), 'little')

    def poke(self, p, off, n, v):
        data = int(v).to_bytes(n, 'little')
        addr = p + off if isinstance(p, int) else p.addr() + off
        ctypes.memmove(addr, data, n)

    def deref(self, p, off=0):
        return self.peek(p, off, 8)

    def ptr_slot(self):
        return self.buf(bytes(8), True, 'pResult')

    def callback(self, name, fn, nargs_bytes):
        nargs = max(i for i, _, _ in nargs_bytes) + 1
        FT = ctypes.CFUNCTYPE(ctypes.c_int, *([ctypes.c_void_p] * nargs))

        def f(*a):
            ins = [None if is_out else list(ctypes.string_at(a[idx], n)) for idx, n, is_out in nargs_bytes]
            rv, outs = fn(ins)
            for idx, data in outs.items():
                data = bytes(data)
                ctypes.memmove(a[idx], data, len(data))
            return rv
        cb = FT(f)
        self.bufs_keep = getattr(self, 'bufs_keep', []) + [cb]
        return cb

    def block_cipher(self, name, key, block_len):
        """real BlockBase whose callbacks call the library's ECB primitive"""
        P = self.env.P
        key = bytes(key)
        FT = ctypes.CFUNCTYPE(ctypes.c_int, ctypes.c_void_p, ctypes.c_void_p, ctypes.c_void_p, ctypes.c_size_t)
        DT = ctypes.CFUNCTYPE(ctypes.c_int, ctypes.c_void_p)

        def mk(dec):
            def f(st, inp, outp, n):
                if n % block_len:
                    return 3
                data = ctypes.string_at(inp, n)
                res = b"".join((P.D if dec else P.E)(name, key, data[i:i + block_len]) for i in range(0, n, block_len))
                ctypes.memmove(outp, res, n)
                return 0
            return FT(f)
        e, d, x = mk(False), mk(True), DT(lambda st: 0)

        class BB(ctypes.Structure):
            _fields_ = [("e", FT), ("d", FT), ("x", DT), ("bl", ctypes.c_size_t)]
        bb = BB(e, d, x, block_len)
        self.bufs_keep = getattr(self, 'bufs_keep', []) + [bb, e, d, x]
        return ctypes.addressof(bb)


def kernel(env, cfile, stubs=None, extra_macros=()):
    if env.sym:
        return SymKernel(env, cfile, stubs, extra_macros)
    return RealKernel(env, cfile, stubs, extra_macros)
