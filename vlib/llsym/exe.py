"""LLSYM executor: symbolic interpretation of the IR subset over z3 terms.

* integers: Python int (masked) when concrete, z3 BitVec otherwise; pointers: Ptr(obj, off)
* memory: objects of concrete size, byte elements (int | BV8 | lazy fragment of a stored word/pointer)
* every load/store/memcpy/memset is bounds- and liveness-checked (C17)
* a branch on a symbolic condition is explored locally (both feasible sides, z3 feasibility) and the
  paths are merged with ite at the return of the function that contained the branch
* designated functions / indirect calls are stubs (Python callbacks reading/writing memory)
"""
import z3

from . import ir
from .ir import Unsupported
from vlib.pysym import core
from vlib.pysym.core import ctx, Inconclusive


class MemError(Exception):
    def __init__(self, kind, detail):
        Exception.__init__(self, "%s: %s" % (kind, detail))
        self.kind, self.detail = kind, detail


class PathDead(Exception):
    pass


class Ptr(object):
    __slots__ = ('obj', 'off')

    def __init__(self, obj, off):
        self.obj, self.off = obj, off

    def __repr__(self):
        return "Ptr(%s+%s)" % (self.obj.name, self.off)


class Fn(object):
    __slots__ = ('name',)

    def __init__(self, name):
        self.name = name

    def __repr__(self):
        return "Fn(%s)" % self.name


class Obj(object):
    __slots__ = ('oid', 'size', 'b', 'alive', 'kind', 'name', 'base', 'writable', 'written')

    def __init__(self, oid, size, kind, name, base, init=0, writable=True):
        self.oid, self.size, self.kind, self.name, self.base = oid, size, kind, name, base
        self.b = [init] * size
        self.alive = True
        self.writable = writable
        self.written = False


UNINIT = None
MASKS = {}


def mask(bits):
    m = MASKS.get(bits)
    if m is None:
        m = MASKS[bits] = (1 << bits) - 1
    return m


def is_c(v):
    return type(v) is int


def bv(v, bits):
    return z3.BitVecVal(v, bits) if type(v) is int else v


_TSIZE = {}          # ast id -> approximate term size (terms built by the executor)
SMALL = 48


def tsz(v):
    if type(v) is int or v is None:
        return 0
    try:
        return _TSIZE.get(v.get_id(), 1)
    except AttributeError:
        return 0


def note(r, *ops):
    """record the approximate size of a freshly built term"""
    if type(r) is not int and r is not None:
        n = 1
        for o in ops:
            n += tsz(o)
        try:
            _TSIZE[r.get_id()] = n if n < 1000000 else 1000000
        except AttributeError:
            pass
    return r


def _same_val(v, v0):
    if v is v0:
        return True
    if type(v) is int or type(v0) is int:
        return type(v) is int and type(v0) is int and v == v0
    try:
        return isinstance(v, z3.ExprRef) and isinstance(v0, z3.ExprRef) and v.eq(v0)
    except Exception:
        return False


def small_term(e, budget=SMALL):
    return tsz(e) <= budget


def frag_byte(f):
    """lazy fragment -> BV8 / int"""
    val, k, n = f
    if isinstance(val, (Ptr, Fn)):
        raise Unsupported("byte access to a stored pointer")
    e = z3.Extract(8 * k + 7, 8 * k, val)
    if small_term(val):
        e = z3.simplify(e)
        if z3.is_bv_value(e):
            return e.as_long()
    return note(e, val)


class Machine(object):
    def __init__(self, module, stubs=None, step_budget=2000000):
        if len(_TSIZE) > 3000000:
            _TSIZE.clear()
        self.mod = module
        self.objs = []
        self.next_base = 0x10000
        self.journal = []
        self.stubs = dict(stubs or {})
        self.globals = {}
        self.steps = 0
        self.step_budget = step_budget
        self.dstack = []
        self.mem_events = []         # (kind, detail) memory-safety violations on feasible paths
        self.uninit_reads = 0
        self.instr_count = 0
        self.fail_alloc_at = None    # n-th allocation (0-based) returns NULL
        self.nalloc = 0
        self.merges = 0
        self.local_paths = 0
        for t in module.structs.values():
            if t.fields is not None:
                ir.layout(t)
        for name, (t, init, is_const) in module.globals.items():
            ir.layout(t)
            o = self.new_obj(t.size, 'global', '@' + name, writable=not is_const)
            self.globals[name] = o
        for name, (t, init, is_const) in module.globals.items():
            if init is not None:
                self._init_global(self.globals[name], 0, t, init)
        for o in self.globals.values():
            o.written = False

    # ------------------------------------------------------------------ objects
    def new_obj(self, size, kind, name, init=0, writable=True, align=64, misalign=0):
        base = (self.next_base + align - 1) // align * align + misalign
        self.next_base = base + size + 64
        o = Obj(len(self.objs), size, kind, name, base, init, writable)
        self.objs.append(o)
        self.journal.append(('alloc', o))
        return o

    def buf(self, elems, name="buf", writable=True, misalign=0):
        """caller buffer initialised with byte elements (int / BV8)"""
        o = self.new_obj(len(elems), 'arg', name, writable=writable, misalign=misalign)
        o.b[:] = list(elems)
        return o

    def read_obj(self, o, off=0, n=None):
        n = o.size - off if n is None else n
        return [self._byte(o, off + i) for i in range(n)]

    def _init_global(self, o, off, t, init):
        k = init[0]
        if k == 'zero':
            return
        if k == 'bytes':
            data = init[1]
            o.b[off:off + len(data)] = list(data)
            return
        if k == 'c':
            self._store_raw(o, off, t.size, init[1] & mask(8 * t.size))
            return
        if k == 'agg':
            if t.k == 'array':
                es = ir.layout(t.elem).size
                for i, (it, iv) in enumerate(init[1]):
                    self._init_global(o, off + i * es, it, iv)
            else:
                ir.layout(t)
                for (it, iv), fo in zip(init[1], t.offsets):
                    self._init_global(o, off + fo, it, iv)
            return
        if k in ('g', 'cgep', 'ccast', 'null'):
            v = self.const(init, t)
            self._store_raw(o, off, 8, v)
            return
        if k == 'undef':
            return
        raise Unsupported("global initializer %r" % (k,))

    # ------------------------------------------------------------------ memory primitives
    def _check(self, p, n, write):
        if not isinstance(p, Ptr):
            raise MemError("null-deref" if p == 0 else "wild-pointer", "access through %r" % (p,))
        o = p.obj
        if not o.alive:
            raise MemError("use-after-free", "%s of %d bytes in freed object %s" % ("store" if write else "load", n, o.name))
        off = p.off
        if type(off) is not int:
            off = self._resolve_offset(p, n)
        if off < 0 or off + n > o.size:
            raise MemError("out-of-bounds", "%s of %d bytes at offset %d of %s (size %d)"
                           % ("store" if write else "load", n, off, o.name, o.size))
        if write and not o.writable:
            raise MemError("write-to-const", "store into %s" % o.name)
        return o, off

    def _resolve_offset(self, p, n):
        raise Unsupported("symbolic offset reached a primitive that needs a concrete one")

    def _byte(self, o, i):
        x = o.b[i]
        if type(x) is tuple:
            x = frag_byte(x)
        elif x is UNINIT:
            self.uninit_reads += 1
            x = z3.BitVec("undef_%d_%d_%d" % (o.oid, i, self.uninit_reads), 8)
            o.b[i] = x
        return x

    def _store_raw(self, o, off, n, v):
        b = o.b
        j = self.journal
        if type(v) is int:
            for k in range(n):
                j.append((o, off + k, b[off + k]))
                b[off + k] = (v >> (8 * k)) & 0xFF
        elif n == 1 and not isinstance(v, (Ptr, Fn)):
            j.append((o, off, b[off]))
            b[off] = v
        else:
            for k in range(n):
                j.append((o, off + k, b[off + k]))
                b[off + k] = (v, k, n)
        o.written = True

    def load(self, p, n, as_ptr=False):
        o, off = self._check(p, n, False)
        b = o.b
        x0 = b[off]
        if type(x0) is tuple and x0[1] == 0 and x0[2] == n:
            val = x0[0]
            ok = True
            for k in range(1, n):
                xk = b[off + k]
                if not (type(xk) is tuple and xk[0] is val and xk[1] == k):
                    ok = False
                    break
            if ok:
                return val
        # assemble little-endian
        parts = [self._byte(o, off + k) for k in range(n)]
        if all(type(x) is int for x in parts):
            v = 0
            for k in range(n - 1, -1, -1):
                v = (v << 8) | parts[k]
            return v
        if n == 1:
            return parts[0]
        return note(z3.Concat(*[bv(x, 8) for x in reversed(parts)]), *parts)

    def store(self, p, n, v):
        o, off = self._check(p, n, True)
        self._store_raw(o, off, n, v)

    def copy(self, dst, src, n, move=False):
        if n == 0:
            return
        so, soff = self._check(src, n, False)
        do, doff = self._check(dst, n, True)
        if not move and so is do and soff < doff + n and doff < soff + n and soff != doff:
            raise MemError("memcpy-overlap", "memcpy of %d bytes with overlapping ranges in %s" % (n, so.name))
        data = list(so.b[soff:soff + n])
        for k in range(n):
            if data[k] is UNINIT:
                data[k] = self._byte(so, soff + k)
        j = self.journal
        b = do.b
        for k in range(n):
            j.append((do, doff + k, b[doff + k]))
            b[doff + k] = data[k]
        do.written = True

    def fill(self, dst, byte, n):
        if n == 0:
            return
        do, doff = self._check(dst, n, True)
        j = self.journal
        b = do.b
        for k in range(n):
            j.append((do, doff + k, b[doff + k]))
            b[doff + k] = byte
        do.written = True

    def malloc(self, size, name, zero=False, align=16):
        if type(size) is not int:
            raise Unsupported("symbolic allocation size")
        idx = self.nalloc
        self.nalloc += 1
        if self.fail_alloc_at is not None and idx == self.fail_alloc_at:
            return 0
        o = self.new_obj(size, 'heap', "%s#%d" % (name, idx), init=0 if zero else UNINIT, align=max(align, 16))
        return Ptr(o, 0)

    def free(self, p):
        if p == 0:
            return
        if not isinstance(p, Ptr):
            raise MemError("bad-free", "free(%r)" % (p,))
        if p.obj.kind != 'heap' or p.off != 0:
            raise MemError("bad-free", "free of non-heap or interior pointer into %s" % p.obj.name)
        if not p.obj.alive:
            raise MemError("double-free", "double free of %s" % p.obj.name)
        self.journal.append(('free', p.obj))
        p.obj.alive = False

    def live_heap(self):
        return [o for o in self.objs if o.kind == 'heap' and o.alive]

    # ------------------------------------------------------------------ constants / operands
    def const(self, v, t):
        k = v[0]
        if k == 'c':
            return v[1] & mask(t.bits) if t.k == 'int' else v[1]
        if k == 'null':
            return 0
        if k == 'g':
            name = v[1]
            o = self.globals.get(name)
            if o is not None:
                return Ptr(o, 0)
            return Fn(name)
        if k == 'undef':
            return 0
        if k == 'zero':
            return 0
        if k == 'cgep':
            base = self.const(v[2], None)
            idx = [(None, i) for i in v[3]]
            return self.gep(v[1], base, [self.const(i, ir.int_ty(64)) for _, i in idx])
        if k == 'ccast':
            x = self.const(v[2], v[3])
            return self.cast(v[1], v[3], x, v[4])
        raise Unsupported("constant kind %r" % (k,))

    def gep(self, bt, base, idxs):
        if not isinstance(base, Ptr):
            if base == 0:
                # &((T*)0)->field : keep as integer offset from null
                raise MemError("null-deref", "getelementptr on null")
            raise Unsupported("gep on %r" % (base,))
        off = base.off
        t = bt
        first = True
        for i in idxs:
            if first:
                sz = ir.layout(t).size
                first = False
            elif t.k == 'array':
                t = t.elem
                sz = ir.layout(t).size
            elif t.k == 'struct':
                if type(i) is not int:
                    raise Unsupported("symbolic struct index")
                ir.layout(t)
                off = off + t.offsets[i] if type(off) is int else off + t.offsets[i]
                t = t.fields[i]
                continue
            else:
                raise Unsupported("gep into %r" % (t,))
            if type(i) is int:
                if i >= 1 << 63:
                    i -= 1 << 64
                if type(off) is int:
                    off = off + i * sz
                else:
                    off = off + z3.BitVecVal(i * sz, 64)
            else:
                ie = i if i.size() == 64 else z3.SignExt(64 - i.size(), i)
                off = bv(off, 64) + ie * z3.BitVecVal(sz, 64)
        if type(off) is not int:
            off = z3.simplify(off)
            if z3.is_bv_value(off):
                off = off.as_signed_long()
        return Ptr(base.obj, off)

    def cast(self, op, t1, v, t2):
        if op == 'bitcast':
            return v
        if op == 'zext':
            if type(v) is int:
                return v
            return note(z3.ZeroExt(t2.bits - t1.bits, v), v)
        if op == 'sext':
            if type(v) is int:
                if v >> (t1.bits - 1):
                    v |= mask(t2.bits) ^ mask(t1.bits)
                return v
            return note(z3.SignExt(t2.bits - t1.bits, v), v)
        if op == 'trunc':
            if type(v) is int:
                return v & mask(t2.bits)
            r = z3.Extract(t2.bits - 1, 0, v)
            if small_term(v):
                # (simplifying huge terms at every truncation is quadratic in constant-time loops)
                r = z3.simplify(r)
                return r.as_long() if z3.is_bv_value(r) else note(r, v)
            return note(r, v)
        if op == 'ptrtoint':
            if isinstance(v, Ptr):
                if type(v.off) is not int:
                    # address = (fake) base + symbolic offset: good enough for alignment tests such as p % 8
                    off = v.off
                    w = off.size()
                    off = z3.Extract(t2.bits - 1, 0, off) if w > t2.bits else (z3.SignExt(t2.bits - w, off) if w < t2.bits else off)
                    r = z3.simplify(z3.BitVecVal(v.obj.base & mask(t2.bits), t2.bits) + off)
                    return r.as_long() if z3.is_bv_value(r) else note(r, v.off)
                return (v.obj.base + v.off) & mask(t2.bits)
            if v == 0:
                return 0
            raise Unsupported("ptrtoint of %r" % (v,))
        if op == 'inttoptr':
            if type(v) is int:
                if v == 0:
                    return 0
                for o in self.objs:
                    if o.base <= v <= o.base + o.size:
                        return Ptr(o, v - o.base)
                raise MemError("wild-pointer", "inttoptr(%#x) matches no object" % v)
            raise Unsupported("inttoptr of a symbolic integer")
        raise Unsupported("cast %s" % op)

    # ------------------------------------------------------------------ decisions (local exploration)
    def decide(self, cond):
        """cond: z3 Bool -> python bool, forking locally when both sides are feasible"""
        cond = z3.simplify(cond)
        if z3.is_true(cond):
            return True
        if z3.is_false(cond):
            return False
        d = self.dstack[-1]
        c = ctx()
        if d['pos'] < len(d['prefix']):
            take = d['prefix'][d['pos']]
        else:
            rt = c._check(cond)
            rf = c._check(z3.Not(cond))
            if rt == z3.unknown or rf == z3.unknown:
                raise Inconclusive("LLSYM branch feasibility unknown")
            if rt == z3.sat and rf == z3.sat:
                d['alts'].append(d['taken'] + [False])
                take = True
            elif rt == z3.sat:
                take = True
            elif rf == z3.sat:
                take = False
            else:
                raise PathDead()
        d['taken'].append(take)
        d['pos'] += 1
        cc = cond if take else z3.Not(cond)
        c.solver.push()
        c.solver.add(cc)
        d['pushes'] += 1
        d['conds'].append(cc)
        return take

    def concretize(self, e, cap=260):
        """exhaustive enumeration of the feasible values of a BV expression (local forks)"""
        e = z3.simplify(e)
        if z3.is_bv_value(e):
            return e.as_long()
        c = ctx()
        n = 0
        while True:
            n += 1
            if n > cap:
                raise Inconclusive("LLSYM concretize cap exceeded")
            r = c._check()
            if r != z3.sat:
                raise PathDead()
            v = c.solver.model().eval(e, model_completion=True).as_long()
            if self.decide(e == v):
                return v

    # ------------------------------------------------------------------ calls
    def call(self, name, args):
        fn = self.mod.funcs.get(name)
        stub = self.stubs.get(name)
        if stub is not None:
            return stub(self, args)
        if fn is None:
            return self.libc(name, args)
        jmark = len(self.journal)
        work = [[]]
        outcomes = []
        c = ctx()
        while work:
            prefix = work.pop()
            d = dict(prefix=prefix, pos=0, taken=[], alts=[], pushes=0, conds=[])
            self.dstack.append(d)
            dead = False
            ret = None
            err = None
            try:
                ret = self._run(fn, args)
            except PathDead:
                dead = True
            except MemError as e:
                err = e
            finally:
                self.dstack.pop()
                for _ in range(d['pushes']):
                    c.solver.pop()
            work.extend(d['alts'])
            self.local_paths += 1
            if err is not None:
                # a memory error on a feasible local path: record with its path condition and stop that path
                self.mem_events.append((err.kind, err.detail, list(self._outer_conds()) + d['conds']))
                dead = True
            if not work and not outcomes and not dead:
                return ret          # single path: state stays as is
            delta = None
            if not dead:
                delta = self._delta(jmark)
                outcomes.append((d['conds'], ret, delta))
            self._undo(jmark)
        if not outcomes:
            raise PathDead()
        return self._merge(outcomes, fn.ret.bits if fn.ret.k == 'int' else 64)

    def _outer_conds(self):
        for d in self.dstack:
            for c in d['conds']:
                yield c

    def _delta(self, jmark):
        first_old = {}
        allocs = []
        frees = []
        for e in self.journal[jmark:]:
            if e[0] == 'alloc':
                allocs.append(e[1])
            elif e[0] == 'free':
                frees.append(e[1])
            else:
                o, i, old = e
                key = (o.oid, i)
                if key not in first_old:
                    first_old[key] = (o, i, old)
        own = set(o.oid for o in allocs)
        new = {k: (o, i, o.b[i]) for k, (o, i, old) in first_old.items() if not (o.oid in own and not o.alive)}
        # objects allocated and released inside this path are invisible outside it
        frees = [o for o in frees if o.oid not in own]
        allocs = [o for o in allocs if o.alive]
        return dict(new=new, allocs=allocs, frees=frees)

    def _undo(self, jmark):
        j = self.journal
        while len(j) > jmark:
            e = j.pop()
            if e[0] == 'alloc':
                e[1].alive = False      # stays in the table (ids stable) but is unreachable / not live
            elif e[0] == 'free':
                e[1].alive = True
            else:
                o, i, old = e
                o.b[i] = old

    def _elem_bv(self, o, x, i):
        if type(x) is tuple:
            return bv(frag_byte(x), 8)
        if x is UNINIT:
            return None
        return bv(x, 8)

    def _merge(self, outcomes, ret_bits=64):
        self.merges += 1
        if len(outcomes) == 1:
            conds, ret, delta = outcomes[0]
            self._apply(delta, None)
            return ret
        # condition of outcome i = And(conds_i); outcomes are exclusive and exhaustive under the pc
        cs = [z3.And(*c) if len(c) > 1 else (c[0] if c else z3.BoolVal(True)) for c, _, _ in outcomes]
        # memory
        keys = {}
        for _, _, d in outcomes:
            for k, (o, i, v) in d['new'].items():
                keys[k] = (o, i)
        for k, (o, i) in keys.items():
            vals = []
            for _, _, d in outcomes:
                e = d['new'].get(k)
                vals.append(e[2] if e is not None else o.b[i])
            v0 = vals[0]
            same = all(_same_val(v, v0) for v in vals)
            if same:
                nv = v0
            else:
                if any(type(v) is tuple and isinstance(v[0], (Ptr, Fn)) for v in vals):
                    # pointer-valued location: all must denote the same pointer fragment
                    p0 = vals[0]
                    if all(type(v) is tuple and _same_ptr(v[0], p0[0]) and v[1] == p0[1] for v in vals):
                        nv = p0
                    else:
                        raise Unsupported("merging different pointers stored at %s+%d" % (o.name, i))
                else:
                    bvs = [self._elem_bv(o, v, i) for v in vals]
                    if any(b is None for b in bvs):
                        bvs = [b if b is not None else z3.BitVecVal(0, 8) for b in bvs]
                    nv = bvs[-1]
                    big = sum(tsz(b) for b in bvs)
                    for cnd, b in zip(reversed(cs[:-1]), reversed(bvs[:-1])):
                        nv = b if b.eq(nv) else z3.If(cnd, b, nv)
                    if big <= 4 * SMALL:
                        nv = z3.simplify(nv)
                        if z3.is_bv_value(nv):
                            nv = nv.as_long()
                    else:
                        note(nv, *bvs)          # large terms (e.g. ARX rounds): merged lazily, not re-simplified
            self.journal.append((o, i, o.b[i]))
            o.b[i] = nv
            o.written = True
        # frees must agree
        f0 = set(x.oid for x in outcomes[0][2]['frees'])
        for _, _, d in outcomes[1:]:
            if set(x.oid for x in d['frees']) != f0:
                raise Unsupported("paths free different objects")
        for x in outcomes[0][2]['frees']:
            self.journal.append(('free', x))
            x.alive = False
        for _, _, d in outcomes:
            for o in d['allocs']:
                self.journal.append(('alloc', o))
                o.alive = True
        # return value
        rets = [r for _, r, _ in outcomes]
        r0 = rets[0]
        if all((r is r0) or (type(r) is int and type(r0) is int and r == r0) or
               (isinstance(r, Ptr) and isinstance(r0, Ptr) and _same_ptr(r, r0)) for r in rets):
            return r0
        if any(isinstance(r, (Ptr, Fn)) for r in rets):
            raise Unsupported("merging different pointer return values")
        if r0 is None:
            return None
        bits = None
        for r in rets:
            if type(r) is not int:
                bits = r.size()
        if bits is None:
            bits = ret_bits
        out = bv(rets[-1], bits)
        for cnd, r in zip(reversed(cs[:-1]), reversed(rets[:-1])):
            out = z3.If(cnd, bv(r, bits), out)
        return z3.simplify(out)

    def _apply(self, delta, cond):
        for k, (o, i, v) in delta['new'].items():
            self.journal.append((o, i, o.b[i]))
            o.b[i] = v
            o.written = True
        for x in delta['frees']:
            self.journal.append(('free', x))
            x.alive = False
        for o in delta['allocs']:
            self.journal.append(('alloc', o))
            o.alive = True

    # ------------------------------------------------------------------ libc / intrinsics
    def libc(self, name, a):
        if name.startswith('llvm.memcpy'):
            self.copy(a[0], a[1], self._cint(a[2]))
            return None
        if name.startswith('llvm.memmove'):
            self.copy(a[0], a[1], self._cint(a[2]), move=True)
            return None
        if name.startswith('llvm.memset'):
            self.fill(a[0], a[1] if type(a[1]) is int else a[1], self._cint(a[2]))
            return None
        if name == 'memcpy':
            self.copy(a[0], a[1], self._cint(a[2]))
            return a[0]
        if name == 'memmove':
            self.copy(a[0], a[1], self._cint(a[2]), move=True)
            return a[0]
        if name == 'memset':
            v = a[1]
            if type(v) is int:
                v &= 0xFF
            else:
                v = z3.Extract(7, 0, v)
            self.fill(a[0], v, self._cint(a[2]))
            return a[0]
        if name == 'calloc':
            return self.malloc(self._cint(a[0]) * self._cint(a[1]), 'calloc', zero=True)
        if name == 'malloc':
            return self.malloc(self._cint(a[0]), 'malloc')
        if name == 'free':
            self.free(a[0])
            return None
        if name == 'posix_memalign':
            al, sz = self._cint(a[1]), self._cint(a[2])
            p = self.malloc(sz, 'posix_memalign', align=al)
            if p == 0:
                return 12
            self.store(a[0], 8, p)
            return 0
        if name == 'memcmp':
            n = self._cint(a[2])
            x = [self._byte(*self._at(a[0], k)) for k in range(n)]
            y = [self._byte(*self._at(a[1], k)) for k in range(n)]
            self._check(a[0], n, False)
            self._check(a[1], n, False)
            if all(type(v) is int for v in x + y):
                bx, by = bytes(x), bytes(y)
                return 0 if bx == by else (1 if bx > by else 0xFFFFFFFF)
            eq = z3.And(*[bv(p, 8) == bv(q, 8) for p, q in zip(x, y)]) if n else z3.BoolVal(True)
            # only the zero / non-zero distinction is modelled (sufficient for equality tests)
            return z3.If(eq, z3.BitVecVal(0, 32), z3.BitVecVal(1, 32))
        if name.startswith('llvm.lifetime') or name.startswith('llvm.dbg') or name.startswith('llvm.assume'):
            return None
        if name.startswith('llvm.bswap'):
            v = a[0]
            bits = int(name.split('.i')[-1])
            if type(v) is int:
                return int.from_bytes(v.to_bytes(bits // 8, 'little'), 'big')
            return z3.Concat(*[z3.Extract(8 * k + 7, 8 * k, v) for k in range(bits // 8)])
        if name.startswith('llvm.fshl') or name.startswith('llvm.fshr'):
            bits = int(name.split('.i')[-1])
            x, y, s = a
            if type(s) is not int:
                raise Unsupported("funnel shift by symbolic amount")
            s %= bits
            cat = z3.Concat(bv(x, bits), bv(y, bits))
            if name.startswith('llvm.fshl'):
                r = z3.Extract(2 * bits - 1 - s, bits - s, cat)
            else:
                r = z3.Extract(bits - 1 + s, s, cat)
            r = z3.simplify(r)
            return r.as_long() if z3.is_bv_value(r) else r
        if name == '__assert_fail' or name == 'abort':
            raise MemError("assert", "assertion failure / abort reached")
        raise Unsupported("external function %s" % name)

    def _at(self, p, k):
        if not isinstance(p, Ptr) or type(p.off) is not int:
            raise Unsupported("byte access through %r" % (p,))
        return p.obj, p.off + k

    def _cint(self, v):
        if type(v) is int:
            return v
        return self.concretize(v)

    # ------------------------------------------------------------------ interpreter
    def _run(self, fn, args):
        regs = {}
        for (t, name), v in zip(fn.params, args):
            regs[name] = v
        blocks = fn.blocks
        label = fn.entry
        prev = None
        allocas = []
        try:
            while True:
                block = blocks[label]
                # phis are evaluated simultaneously
                pi = 0
                nb = len(block)
                if block[0][0] == 'phi':
                    vals = []
                    while pi < nb and block[pi][0] == 'phi':
                        ins = block[pi]
                        vals.append((ins[1], self.val(ins[3][prev], ins[2], regs)))
                        pi += 1
                    for d, v in vals:
                        regs[d] = v
                jumped = False
                for ins in block[pi:]:
                    self.steps += 1
                    if self.steps > self.step_budget:
                        raise Inconclusive("LLSYM step budget exceeded (unwinding assertion)")
                    op = ins[0]
                    if op == 'load':
                        t = ins[2]
                        p = self.val(ins[3], None, regs)
                        if isinstance(p, Ptr) and type(p.off) is not int:
                            regs[ins[1]] = self._load_symoff(p, t)
                        else:
                            regs[ins[1]] = self.load(p, t.size)
                    elif op == 'store':
                        t = ins[2]
                        v = self.val(ins[3], t, regs)
                        p = self.val(ins[4], None, regs)
                        if isinstance(p, Ptr) and type(p.off) is not int:
                            self._store_symoff(p, t, v)
                        else:
                            self.store(p, t.size, v)
                    elif op == 'gep':
                        base = self.val(ins[3], None, regs)
                        idxs = []
                        for it, iv in ins[4]:
                            x = self.val(iv, it, regs)
                            if type(x) is int and it.bits < 64 and x >> (it.bits - 1):
                                x -= 1 << it.bits          # indices are signed
                            idxs.append(x)
                        regs[ins[1]] = self.gep(ins[2], base, idxs)
                    elif op in _BIN:
                        t = ins[2]
                        regs[ins[1]] = self.binop(op, t.bits, self.val(ins[3], t, regs), self.val(ins[4], t, regs))
                    elif op == 'icmp':
                        t = ins[3]
                        regs[ins[1]] = self.icmp(ins[2], t, self.val(ins[4], t, regs), self.val(ins[5], t, regs))
                    elif op == 'cast':
                        regs[ins[1]] = self.cast(ins[2], ins[3], self.val(ins[4], ins[3], regs), ins[5])
                    elif op == 'jmp':
                        prev, label = label, ins[2]
                        jumped = True
                        break
                    elif op == 'br':
                        c = self.val(ins[2], _I1, regs)
                        if type(c) is int:
                            take = bool(c & 1)
                        else:
                            take = self.decide(c == 1)
                        prev, label = label, (ins[3] if take else ins[4])
                        jumped = True
                        break
                    elif op == 'ret':
                        if ins[3] is None:
                            return None
                        return self.val(ins[3], ins[2], regs)
                    elif op == 'select':
                        c = self.val(ins[3], _I1, regs)
                        a = self.val(ins[4], ins[2], regs)
                        b = self.val(ins[5], ins[2], regs)
                        if type(c) is int:
                            regs[ins[1]] = a if c & 1 else b
                        elif isinstance(a, (Ptr, Fn)) or isinstance(b, (Ptr, Fn)):
                            regs[ins[1]] = a if self.decide(c == 1) else b
                        else:
                            bits = ins[2].bits
                            regs[ins[1]] = note(z3.If(c == 1, bv(a, bits), bv(b, bits)), c, a, b)
                    elif op == 'alloca':
                        t = ins[2]
                        ir.layout(t)
                        cnt = 1 if ins[3] is None else self._cint(self.val(ins[3], ir.int_ty(64), regs))
                        o = self.new_obj(t.size * cnt, 'stack', "%s.%%%s" % (fn.name, ins[1]), init=UNINIT)
                        allocas.append(o)
                        regs[ins[1]] = Ptr(o, 0)
                    elif op == 'call':
                        callee = ins[3]
                        argv = [self.val(av, at, regs) for at, av in ins[4]]
                        if callee[0] == 'g':
                            r = self.call(callee[1], argv)
                        else:
                            f = regs[callee[1]]
                            if not isinstance(f, Fn):
                                raise MemError("bad-call", "indirect call through %r" % (f,))
                            r = self.call(f.name, argv)
                        if ins[1] is not None:
                            regs[ins[1]] = r
                    elif op == 'switch':
                        v = self.val(ins[3], ins[2], regs)
                        target = ins[4]
                        if type(v) is int:
                            for cv, lbl in ins[5]:
                                if cv & mask(ins[2].bits) == v:
                                    target = lbl
                                    break
                        else:
                            hit = False
                            for cv, lbl in ins[5]:
                                if self.decide(v == cv):
                                    target = lbl
                                    hit = True
                                    break
                        prev, label = label, target
                        jumped = True
                        break
                    elif op == 'unreachable':
                        raise MemError("unreachable", "unreachable executed in %s" % fn.name)
                    else:
                        raise Unsupported("op %s" % op)
                if not jumped:
                    raise Unsupported("block without terminator in %s" % fn.name)
        finally:
            for o in allocas:
                if o.alive:
                    self.journal.append(('free', o))
                    o.alive = False

    def val(self, v, t, regs):
        k = v[0]
        if k == 'r':
            return regs[v[1]]
        if k == 'c':
            return v[1] & mask(t.bits) if (t is not None and t.k == 'int') else v[1]
        return self.const(v, t)

    def binop(self, op, bits, a, b):
        if type(a) is int and type(b) is int:
            m = mask(bits)
            if op == 'add':
                return (a + b) & m
            if op == 'sub':
                return (a - b) & m
            if op == 'mul':
                return (a * b) & m
            if op == 'and':
                return a & b
            if op == 'or':
                return a | b
            if op == 'xor':
                return a ^ b
            if op == 'shl':
                return (a << b) & m if b < bits else 0
            if op == 'lshr':
                return a >> b if b < bits else 0
            if op == 'ashr':
                sa = a - (1 << bits) if a >> (bits - 1) else a
                return (sa >> min(b, bits - 1)) & m
            if op == 'udiv':
                if b == 0:
                    raise MemError("div-by-zero", "udiv")
                return a // b
            if op == 'urem':
                if b == 0:
                    raise MemError("div-by-zero", "urem")
                return a % b
            sa = a - (1 << bits) if a >> (bits - 1) else a
            sb = b - (1 << bits) if b >> (bits - 1) else b
            if sb == 0:
                raise MemError("div-by-zero", op)
            q = abs(sa) // abs(sb)
            if (sa < 0) != (sb < 0):
                q = -q
            if op == 'sdiv':
                return q & m
            if op == 'srem':
                return (sa - q * sb) & m
            raise Unsupported(op)
        if isinstance(a, Ptr) or isinstance(b, Ptr):
            raise Unsupported("integer arithmetic on a pointer")
        x, y = bv(a, bits), bv(b, bits)
        if op == 'add':
            return note(x + y, a, b)
        if op == 'sub':
            return note(x - y, a, b)
        if op == 'mul':
            return note(x * y, a, b)
        if op == 'and':
            if type(b) is int and b == 0 or type(a) is int and a == 0:
                return 0
            return note(x & y, a, b)
        if op == 'or':
            return note(x | y, a, b)
        if op == 'xor':
            return note(x ^ y, a, b)
        if op == 'shl':
            return note(x << y, a, b)
        if op == 'lshr':
            return note(z3.LShR(x, y), a, b)
        if op == 'ashr':
            return note(x >> y, a, b)
        if op in ('udiv', 'urem', 'sdiv', 'srem'):
            if self.decide(y == 0):
                raise MemError("div-by-zero", op)
            if op == 'udiv':
                return z3.UDiv(x, y)
            if op == 'urem':
                return z3.URem(x, y)
            if op == 'sdiv':
                return x / y
            return z3.SRem(x, y)
        raise Unsupported(op)

    def icmp(self, pred, t, a, b):
        if t.k == 'ptr':
            if isinstance(a, (Ptr, Fn)) or isinstance(b, (Ptr, Fn)):
                eq = _same_ptr(a, b)
                if pred == 'eq':
                    return int(eq)
                if pred == 'ne':
                    return int(not eq)
                if isinstance(a, Ptr) and isinstance(b, Ptr) and a.obj is b.obj and type(a.off) is int and type(b.off) is int:
                    return self.icmp(pred, ir.int_ty(64), a.off & mask(64), b.off & mask(64))
                raise Unsupported("pointer ordering across objects")
            bits = 64
        else:
            bits = t.bits
        if type(a) is int and type(b) is int:
            if pred in ('slt', 'sle', 'sgt', 'sge'):
                a = a - (1 << bits) if a >> (bits - 1) else a
                b = b - (1 << bits) if b >> (bits - 1) else b
            r = dict(eq=a == b, ne=a != b, ult=a < b, ule=a <= b, ugt=a > b, uge=a >= b,
                     slt=a < b, sle=a <= b, sgt=a > b, sge=a >= b)[pred]
            return int(r)
        x, y = bv(a, bits), bv(b, bits)
        c = dict(eq=lambda: x == y, ne=lambda: x != y, ult=lambda: z3.ULT(x, y), ule=lambda: z3.ULE(x, y),
                 ugt=lambda: z3.UGT(x, y), uge=lambda: z3.UGE(x, y), slt=lambda: x < y, sle=lambda: x <= y,
                 sgt=lambda: x > y, sge=lambda: x >= y)[pred]()
        if tsz(a) + tsz(b) <= SMALL:
            c = z3.simplify(c)
            if z3.is_true(c):
                return 1
            if z3.is_false(c):
                return 0
        return note(z3.If(c, _ONE1, _ZERO1), a, b)

    # symbolic-offset accesses (table look-ups): ite over every feasible position
    def _feasible_offsets(self, p, n, cap=260):
        c = ctx()
        offs = []
        c.solver.push()
        try:
            while True:
                if len(offs) > cap:
                    raise Inconclusive("symbolic offset with more than %d feasible values" % cap)
                r = c._check()
                if r == z3.unknown:
                    raise Inconclusive("offset enumeration unknown")
                if r == z3.unsat:
                    break
                v = c.solver.model().eval(p.off, model_completion=True).as_signed_long()
                offs.append(v)
                c.solver.add(p.off != v)
        finally:
            c.solver.pop()
        return offs

    def _load_symoff(self, p, t):
        n = t.size
        offs = self._feasible_offsets(p, n)
        if not offs:
            raise PathDead()
        vals = []
        for o in offs:
            vals.append(self.load(Ptr(p.obj, o), n))       # bounds-checked per feasible offset
        if any(isinstance(v, (Ptr, Fn)) for v in vals):
            raise Unsupported("pointer loaded through a symbolic offset")
        bits = 8 * n
        r = bv(vals[-1], bits)
        for o, v in zip(reversed(offs[:-1]), reversed(vals[:-1])):
            r = z3.If(p.off == o, bv(v, bits), r)
        if t.k == 'int' and t.bits != bits:
            r = z3.Extract(t.bits - 1, 0, r)
        return r

    def _store_symoff(self, p, t, v):
        n = t.size
        offs = self._feasible_offsets(p, n)
        for o in offs:
            old = self.load(Ptr(p.obj, o), n)
            self.store(Ptr(p.obj, o), n, z3.If(p.off == o, bv(v, 8 * n), bv(old, 8 * n)))


def _same_ptr(a, b):
    if isinstance(a, Ptr) and isinstance(b, Ptr):
        return a.obj is b.obj and type(a.off) is int and type(b.off) is int and a.off == b.off
    if isinstance(a, Fn) and isinstance(b, Fn):
        return a.name == b.name
    if (a == 0 or a is None) and (b == 0 or b is None) and not isinstance(a, (Ptr, Fn)) and not isinstance(b, (Ptr, Fn)):
        return True
    return False


_BIN = frozenset("add sub mul udiv sdiv urem srem shl lshr ashr and or xor".split())
_I1 = ir.int_ty(1)
_ONE1 = z3.BitVecVal(1, 1)
_ZERO1 = z3.BitVecVal(0, 1)
