"""C -> LLVM IR on every run (clang-14 -O0 + mem2reg) with the macros of the real build."""
import hashlib
import os
import shutil
import subprocess
import tempfile

from . import ir

REPO = os.environ.get("VERIF_REPO", "/repo")
SRC = os.path.join(REPO, "src")
# what compiler_opt.set_compiler_options() defines on this platform (x86-64 Linux, gcc/clang) plus
# -DNDEBUG from the CPython build flags (sysconfig CFLAGS), so assert() is compiled out as in the
# shipped extension modules.  USE_SSE2 only affects bignum/mont/multiply_32 (not encoded with SSE2).
MACROS = ["HAVE_STDINT_H", "PYCRYPTO_LITTLE_ENDIAN", "SYS_BITS=64", "LTC_NO_ASM", "HAVE_UINT128",
          "HAVE_CPUID_H", "HAVE_POSIX_MEMALIGN", "NDEBUG"]

_cache = {}
sources_used = {}


def module(cfile, extra_macros=()):
    key = (cfile, tuple(extra_macros))
    m = _cache.get(key)
    if m is not None:
        return m
    d = tempfile.mkdtemp(prefix="llsym_")
    parts = cfile.split('+')
    for part in parts:
        with open(os.path.join(SRC, part), 'rb') as f:
            sources_used[part] = hashlib.sha256(f.read()).hexdigest()
    if len(parts) > 1:
        # several translation units of one extension module, analysed as a single unit ("a.c+b.c")
        path = os.path.join(d, "unit.c")
        with open(path, 'w') as f:
            f.write("".join('#include "%s"\n' % os.path.join(SRC, part) for part in parts))
    else:
        path = os.path.join(SRC, cfile)
    try:
        raw = os.path.join(d, "a.ll")
        out = os.path.join(d, "b.ll")
        cmd = ["clang", "-S", "-emit-llvm", "-O0", "-Xclang", "-disable-O0-optnone", "-fno-discard-value-names" if False else "-w",
               "-I", SRC, "-I", os.path.join(SRC, "libtom")]
        for mac in list(MACROS) + list(extra_macros):
            cmd.append("-D" + mac)
        cmd += [path, "-o", raw]
        r = subprocess.run(cmd, capture_output=True, text=True)
        if r.returncode != 0:
            raise ir.Unsupported("clang failed on %s: %s" % (cfile, r.stderr[-500:]))
        r = subprocess.run(["opt", "-S", "-mem2reg", raw, "-o", out], capture_output=True, text=True)
        if r.returncode != 0:
            raise ir.Unsupported("opt failed on %s: %s" % (cfile, r.stderr[-500:]))
        with open(out) as f:
            text = f.read()
    finally:
        shutil.rmtree(d, ignore_errors=True)
    m = ir.parse(text, cfile)
    m.text = text
    _cache[key] = m
    return m


def written_globals(cfile, extra_macros=()):
    """module globals that are not constants and are the target of a store / memory intrinsic / passed by
    address to a call somewhere in the module (syntactic confirmation of a 'writable static' on the IR the
    compiler produced; used by the concrete replay, where ctypes cannot observe module-private storage)"""
    import re
    m = module(cfile, extra_macros)
    out = []
    for name, (t, init, is_const) in m.globals.items():
        if is_const:
            continue
        pat = re.compile(r'@' + re.escape(name.lstrip('@')) + r'\b')
        for line in m.text.splitlines():
            ls = line.strip()
            if not pat.search(ls) or ls.startswith('@') or ls.startswith(';'):
                continue
            if re.match(r'(%[\w.]+ = )?load ', ls) and not re.search(r'store ', ls):
                continue
            out.append(name)
            break
    return out
