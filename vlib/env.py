"""Harness environment: the same harness body runs symbolically (PYSYM, python3-vt) and concretely
(real library, /venv/bin/python) -- the latter is used to replay solver models and to validate the
reference models against the real build.  This module must import without z3."""
import random as _random


class ConcreteViolation(Exception):
    def __init__(self, label):
        Exception.__init__(self, label)
        self.label = label


class Skip(Exception):
    """concrete inputs do not satisfy a harness assumption"""


# ---------------------------------------------------------------------------------------------

class RealPrims(object):
    """Primitives bound to the real library (assumed correct: KAT-tested, outside the glue claims)."""
    sym = False
    _cmods = dict(AES="AES", DES="DES", DES3="DES3", BF="Blowfish", CAST="CAST", ARC2="ARC2")

    def _cipher(self, name, key):
        import importlib
        if name.startswith("ARC2e"):
            m = importlib.import_module("Crypto.Cipher.ARC2")
            return m.new(bytes(key), m.MODE_ECB, effective_keylen=int(name[5:]))
        m = importlib.import_module("Crypto.Cipher." + self._cmods[name])
        return m.new(bytes(key), m.MODE_ECB)

    def E(self, name, key, block):
        return self._cipher(name, key).encrypt(bytes(block))

    def D(self, name, key, block):
        return self._cipher(name, key).decrypt(bytes(block))

    def xor(self, a, b):
        assert len(a) == len(b)
        return bytes(x ^ y for x, y in zip(bytes(a), bytes(b)))

    def gmul(self, x, h):
        X = int.from_bytes(bytes(x), 'big')
        V = int.from_bytes(bytes(h), 'big')
        Z = 0
        for i in range(128):
            if (X >> (127 - i)) & 1:
                Z ^= V
            if V & 1:
                V = (V >> 1) ^ (0xE1 << 120)
            else:
                V >>= 1
        return Z.to_bytes(16, 'big')

    def hash(self, name, msg, outlen, *params):
        import importlib
        msg = bytes(msg)
        if name.startswith("SHA512t"):
            m = importlib.import_module("Crypto.Hash.SHA512")
            return m.new(msg, truncate=name[7:]).digest()
        m = importlib.import_module("Crypto.Hash." + name)
        return m.new(msg).digest()[:outlen]

    def shake(self, bits, msg, outlen):
        import importlib
        return importlib.import_module("Crypto.Hash.SHAKE%d" % bits).new(bytes(msg)).read(outlen)

    def keccak(self, cap, rounds, padding, msg, outlen):
        """FIPS 202 sponge[Keccak-p[1600, rounds], pad10*1 with the domain byte, rate 200 - cap](msg, outlen) -- pure Python"""
        r = 200 - cap
        msg = bytes(msg)
        q = r - (len(msg) % r)
        pad = bytes([padding | 0x80]) if q == 1 else bytes([padding]) + bytes(q - 2) + b"\x80"
        data = msg + pad
        st = bytes(200)
        for i in range(0, len(data), r):
            st = keccak_f1600(bytes(a ^ b for a, b in zip(st[:r], data[i:i + r])) + st[r:], rounds)
        out = st[:r]
        while len(out) < outlen:
            st = keccak_f1600(st, rounds)
            out += st[:r]
        return out[:outlen]

    def uf(self, name, ins, outlen):
        import importlib
        ins = [bytes(i) for i in ins]
        if name.startswith("H_BLAKE2"):
            algo, d = name[2:].rsplit("_", 1)
            m = importlib.import_module("Crypto.Hash." + algo)
            key, data = ins
            if key:
                return m.new(digest_bytes=int(d), key=key, data=data).digest()
            return m.new(digest_bytes=int(d), data=data).digest()
        f = REAL_UFS.get(name)
        if f is None:
            raise Skip("no real binding for UF %s" % name)
        return f(*ins)[:outlen] if outlen is not None else f(*ins)

    def b2i(self, b, order='big'):
        return int.from_bytes(bytes(b), order)

    def i2b(self, v, n, order='big'):
        return int(v).to_bytes(n, order)

    def concat(self, *parts):
        return b"".join(bytes(p) for p in parts)

    def const(self, b):
        return bytes(b)


def _real_chacha_block(key, tail):
    from Crypto.Cipher import ChaCha20
    c = ChaCha20.new(key=key, nonce=tail[4:16])
    c.seek(64 * int.from_bytes(tail[:4], 'little'))
    return c.encrypt(bytes(64))


def _real_hchacha(key, nonce16):
    from Crypto.Cipher.ChaCha20 import _HChaCha20
    return bytes(_HChaCha20(key, nonce16))


def _real_poly1305(r, s, msg=b""):
    from Crypto.Hash.Poly1305 import Poly1305_MAC
    return Poly1305_MAC(r, s, msg).digest()


_KRC = [0x0000000000000001, 0x0000000000008082, 0x800000000000808A, 0x8000000080008000, 0x000000000000808B, 0x0000000080000001,
        0x8000000080008081, 0x8000000000008009, 0x000000000000008A, 0x0000000000000088, 0x0000000080008009, 0x000000008000000A,
        0x000000008000808B, 0x800000000000008B, 0x8000000000008089, 0x8000000000008003, 0x8000000000008002, 0x8000000000000080,
        0x000000000000800A, 0x800000008000000A, 0x8000000080008081, 0x8000000000008080, 0x0000000080000001, 0x8000000080008008]
_KROT = [[0, 36, 3, 41, 18], [1, 44, 10, 45, 2], [62, 6, 43, 15, 61], [28, 55, 25, 21, 56], [27, 20, 39, 8, 14]]


def keccak_f1600(state, rounds=24):
    """FIPS 202 s3 Keccak-p[1600, rounds] on a 200-byte state (pure Python reference)"""
    M64 = (1 << 64) - 1
    a = [[int.from_bytes(state[8 * (x + 5 * y):8 * (x + 5 * y) + 8], 'little') for y in range(5)] for x in range(5)]

    def rol(v, n):
        n %= 64
        return ((v << n) | (v >> (64 - n))) & M64 if n else v
    for rc in _KRC[24 - rounds:]:
        c = [a[x][0] ^ a[x][1] ^ a[x][2] ^ a[x][3] ^ a[x][4] for x in range(5)]
        d = [c[(x - 1) % 5] ^ rol(c[(x + 1) % 5], 1) for x in range(5)]
        a = [[a[x][y] ^ d[x] for y in range(5)] for x in range(5)]
        b = [[0] * 5 for _ in range(5)]
        for x in range(5):
            for y in range(5):
                b[y][(2 * x + 3 * y) % 5] = rol(a[x][y], _KROT[x][y])
        a = [[b[x][y] ^ ((~b[(x + 1) % 5][y]) & b[(x + 2) % 5][y]) for y in range(5)] for x in range(5)]
        a[0][0] ^= rc
    return b"".join(a[x][y].to_bytes(8, 'little') for y in range(5) for x in range(5))


def _real_salsa20_8_core(x, y):
    from Crypto.Protocol.KDF import _raw_salsa20_lib
    from Crypto.Util._raw_api import c_uint8_ptr, create_string_buffer, get_raw_buffer
    out = create_string_buffer(64)
    _raw_salsa20_lib.Salsa20_8_core(c_uint8_ptr(bytes(x)), c_uint8_ptr(bytes(y)), out)
    return get_raw_buffer(out)


REAL_UFS = dict(SALSA20_8_CORE=_real_salsa20_8_core, CHACHA20_BLOCK=_real_chacha_block, HCHACHA20=_real_hchacha, POLY1305=_real_poly1305,
                KECCAK_F1600_r24=lambda st: keccak_f1600(bytes(st), 24), KECCAK_F1600_r12=lambda st: keccak_f1600(bytes(st), 12))


class SymPrims(object):
    sym = True

    def __init__(self):
        from vlib.pysym import natives, core
        self.n = natives
        self.c = core

    def _e(self, x):
        return self.c.to_elems(x)

    def E(self, name, key, block):
        return self.c.SymBytes(self.n.E(name, self._e(key), self._e(block)))

    def D(self, name, key, block):
        return self.c.SymBytes(self.n.D(name, self._e(key), self._e(block)))

    def xor(self, a, b):
        assert len(a) == len(b)
        return self.c.SymBytes(self.n.xor_elems(self._e(a), self._e(b)))

    def gmul(self, x, h):
        return self.c.SymBytes(self.n.GMUL(self._e(x), self._e(h)))

    def hash(self, name, msg, outlen, *params):
        return self.c.SymBytes(self.n.HASH(name, self._e(msg), outlen, *params))

    def keccak(self, cap, rounds, padding, msg, outlen):
        """sponge output as the (chunked, prefix-consistent) uninterpreted sponge of vlib/pysym/natives.py"""
        return self.c.SymBytes(self.n.keccak_stream(cap, rounds, padding, self._e(msg), 0, outlen))

    def shake(self, bits, msg, outlen):
        """SHAKE128/256 output as the (chunked, prefix-consistent) uninterpreted sponge of vlib/pysym/natives.py"""
        return self.c.SymBytes(self.n.keccak_stream(2 * bits // 8, 24, 0x1F, self._e(msg), 0, outlen))

    def uf(self, name, ins, outlen):
        return self.c.SymBytes(self.n.UF(name, [self._e(i) for i in ins], outlen))

    def b2i(self, b, order='big'):
        return self.c.int_from_bytes(self._e(b), order)

    def i2b(self, v, n, order='big'):
        if isinstance(v, int):
            return self.c.SymBytes(list(v.to_bytes(n, order)))
        return v.to_bytes(n, order)

    def concat(self, *parts):
        out = []
        for p in parts:
            out.extend(self._e(p))
        return self.c.SymBytes(out)

    def const(self, b):
        return self.c.SymBytes(list(b))


# ---------------------------------------------------------------------------------------------

class SymEnv(object):
    sym = True

    def __init__(self, c):
        from vlib.pysym import core
        self.core = core
        self.c = c
        self.P = SymPrims()

    def bytes(self, name, n):
        return self.c.sym_bytes(name, n)

    def bytearray(self, name, n):
        return self.c.sym_bytes(name, n, cls=self.core.SymByteArray)

    def int(self, name, bits, signed=False):
        return self.c.sym_int(name, bits, signed)

    def bool(self, name):
        return self.c.sym_bool(name)

    def as_bytearray(self, b):
        return self.core.SymByteArray(self.core.to_elems(b))

    def as_memoryview(self, b, writable=False):
        base = self.core.SymByteArray(self.core.to_elems(b)) if writable else \
            self.core.SymBytes(self.core.to_elems(b))
        return self.core.SymMemoryView(base)

    def view(self, base, off=0, n=None):
        return self.core.SymMemoryView(base, off, n)

    def tobytes(self, b):
        return self.core.SymBytes(self.core.to_elems(b))

    def check(self, cond, label):
        self.c.check(cond, label)

    def iff(self, a, b, label):
        self.c.check(self.eqv(a, b), label)

    def eqv(self, a, b):
        import z3
        return self.core.SymBool.make(self.core.bool_expr(a) == self.core.bool_expr(b))

    def implies(self, a, b):
        return self.Or(self.Not(a), b)

    def assume(self, cond):
        self.c.assume(cond)

    def And(self, *xs):
        return self.core.sym_and(*xs)

    def Or(self, *xs):
        return self.core.sym_or(*xs)

    def Not(self, x):
        return self.core.sym_not(x)

    def ite(self, c, a, b):
        """integer if-then-else"""
        import z3
        core = self.core
        if not isinstance(c, core.SymBool):
            return a if c else b
        ae, aw, an = core.SymInt.co(a)
        be, bw, bn = core.SymInt.co(b)
        w = max(aw, bw)
        return core.SymInt.make(z3.If(c.e, core._sext(ae, aw, w), core._sext(be, bw, w)), w, an and bn)

    def ite_bytes(self, c, a, b):
        import z3
        core = self.core
        if not isinstance(c, core.SymBool):
            return a if c else b
        ea, eb = core.to_elems(a), core.to_elems(b)
        assert len(ea) == len(eb)
        return core.SymBytes([core._simp_byte(z3.If(c.e, core.byte_expr(x), core.byte_expr(y)))
                              for x, y in zip(ea, eb)])

    def reachable(self):
        return self.c.reachable()

    def tape(self):
        return list(self.c.tape)

    def forbid_default_rng(self, on=True):
        from vlib.pysym import natives
        natives.Tape.mode = 'forbid' if on else 'fresh'

    def note(self, s):
        self.c.notes.append(s)

    def abstract_wide_arith(self, bits):
        self.core.ABSTRACT_WIDE[0] = bits

    def concrete_rng(self, seed):
        """default RNG = deterministic concrete bytes (where the property is not about randomness)"""
        from vlib.pysym import natives
        if seed is None:
            natives.Tape.provider = None
            return
        import random
        r = random.Random(seed)
        natives.Tape.provider = lambda n: bytes(r.getrandbits(8) for _ in range(n))

    def opaque_decryption(self, on):
        """block-cipher decryption returns zero blocks (stated cut: what a wrong key decrypts to is
        arbitrary; the structure parsing before decryption is what the harness explores)"""
        from vlib.pysym import natives
        natives.CIPHER_OVERRIDE = (lambda name, key, block, dec: [0] * len(block)) if on else None


class ConcEnv(object):
    sym = False

    def __init__(self, inputs=None, rng=None):
        self.inputs = dict(inputs or {})
        self.rng = rng or _random.Random(0)
        self.used = {}
        self.P = RealPrims()
        self.checks = 0

    def bytes(self, name, n):
        if name in self.used and name not in self.inputs:
            v = bytes.fromhex(self.used[name])
            if len(v) == n:
                return v
        if name in self.inputs:
            v = bytes.fromhex(self.inputs[name])
            if len(v) != n:
                v = (v + bytes(n))[:n]
        else:
            v = bytes(self.rng.getrandbits(8) for _ in range(n))
        self.used[name] = v.hex()
        return v

    def bytearray(self, name, n):
        return bytearray(self.bytes(name, n))

    def int(self, name, bits, signed=False):
        if name in self.used and name not in self.inputs:
            return self.used[name]          # the same name always denotes the same value
        if name in self.inputs:
            v = int(self.inputs[name])
        else:
            v = self.rng.getrandbits(bits) if bits else 0
            if signed and v >= 1 << (bits - 1):
                v -= 1 << bits
        self.used[name] = v
        return v

    def bool(self, name):
        if name in self.inputs:
            v = bool(self.inputs[name])
        else:
            v = bool(self.rng.getrandbits(1))
        self.used[name] = v
        return v

    def as_bytearray(self, b):
        return bytearray(b)

    def as_memoryview(self, b, writable=False):
        return memoryview(bytearray(b)) if writable else memoryview(bytes(b))

    def view(self, base, off=0, n=None):
        mv = memoryview(base)
        return mv[off:] if n is None else mv[off:off + n]

    def tobytes(self, b):
        return bytes(b)

    def check(self, cond, label):
        self.checks += 1
        if not cond:
            raise ConcreteViolation(label)

    def iff(self, a, b, label):
        self.check(bool(a) == bool(b), label)

    def eqv(self, a, b):
        return bool(a) == bool(b)

    def implies(self, a, b):
        return (not a) or bool(b)

    def assume(self, cond):
        if not cond:
            raise Skip("assumption false on concrete inputs")

    def And(self, *xs):
        return all(xs)

    def Or(self, *xs):
        return any(xs)

    def Not(self, x):
        return not x

    def ite(self, c, a, b):
        return a if c else b

    def ite_bytes(self, c, a, b):
        return a if c else b

    def reachable(self):
        return True

    def tape(self):
        return []

    def forbid_default_rng(self, on=True):
        pass

    def note(self, s):
        pass

    def concrete_rng(self, seed):
        pass

    def abstract_wide_arith(self, bits):
        pass

    def opaque_decryption(self, on):
        pass


class Harness(object):
    """name, run(env, shape); optional attributes max_paths, timeout_ms, concretize_cap."""

    def __init__(self, name, run, **kw):
        self.name = name
        self.run = run
        for k, v in kw.items():
            setattr(self, k, v)
