"""debug aid: run one (module, harness, shape) under PYSYM and print the raw worker result"""
import sys, time, json
sys.path.insert(0,'/verif')
from vlib import common
mod, h = sys.argv[1], sys.argv[2]
shape = json.loads(sys.argv[3])
t=time.time()
out = common._worker((mod,h,shape))
out.pop('sources',None)
print(json.dumps(out,indent=0,default=str)[:3000], time.time()-t)
