#!/bin/bash
# usage: try_mutant.sh <patch.diff> <PROP> [tier]   -- applies the patch to /repo, runs the check, reverts
PATCH=$1; PROP=$2; TIER=${3:-quick}
cd /repo || exit 9
if [ -n "$(git status --porcelain --untracked-files=no)" ]; then echo "repo not clean"; exit 9; fi
git apply "$PATCH" || { echo "apply failed"; exit 9; }
cd /verif
VERIF_TIER=$TIER ./check $PROP > /tmp/try_${PROP}.log 2>&1
rc=$?
cd /repo && git checkout -q -- .
echo "exit=$rc"; grep "VIOLATION\|^\[$PROP\]\|INCONCLUSIVE\|HARNESS-ERROR" /tmp/try_${PROP}.log | cut -c1-260 | head -8
exit $rc
