"""Generate valid key encodings used as mutation templates by C13/C08 (run with /venv/bin/python).
Output: props/templates.json (committed; concrete test data, not evidence)."""
import json, sys
sys.path.insert(0, '/repo/lib')
from Crypto.PublicKey import RSA, DSA, ECC
from Crypto.IO import PKCS8
from Crypto.Random import get_random_bytes
out = {}
rsa = RSA.generate(1024)
out['rsa_pkcs1'] = rsa.export_key('DER', pkcs=1).hex()
out['rsa_pkcs8'] = rsa.export_key('DER', pkcs=8).hex()
out['rsa_spki'] = rsa.public_key().export_key('DER').hex()
out['rsa_pkcs8_pbes2_pbkdf2'] = rsa.export_key('DER', pkcs=8, passphrase='pw', protection='PBKDF2WithHMAC-SHA1AndAES128-CBC', prot_params=dict(iteration_count=2)).hex()
out['rsa_pkcs8_pbes2_scrypt'] = rsa.export_key('DER', pkcs=8, passphrase='pw', protection='scryptAndAES128-CBC', prot_params=dict(iteration_count=2, block_size=1, parallelization=1)).hex()
out['rsa_pkcs8_pbes2_gcm'] = rsa.export_key('DER', pkcs=8, passphrase='pw', protection='PBKDF2WithHMAC-SHA256AndAES128-GCM', prot_params=dict(iteration_count=2)).hex()
dsa = DSA.generate(1024)
out['dsa_priv'] = dsa.export_key('DER', pkcs8=False).hex()
out['dsa_pkcs8'] = dsa.export_key('DER', pkcs8=True).hex()
out['dsa_spki'] = dsa.public_key().export_key('DER').hex()
ec = ECC.generate(curve='P-256')
out['ecc_sec1'] = ec.export_key(format='DER', use_pkcs8=False).hex()
out['ecc_pkcs8'] = ec.export_key(format='DER', use_pkcs8=True).hex()
out['ecc_spki'] = ec.public_key().export_key(format='DER').hex()
out['ecc_spki_compressed'] = ec.public_key().export_key(format='DER', compress=True).hex()
ed = ECC.generate(curve='Ed25519')
out['ed25519_pkcs8'] = ed.export_key(format='DER').hex()
out['ed25519_spki'] = ed.public_key().export_key(format='DER').hex()
x = ECC.generate(curve='Curve25519')
out['x25519_pkcs8'] = x.export_key(format='DER').hex()
out['x25519_spki'] = x.public_key().export_key(format='DER').hex()
json.dump(out, open('/verif/props/templates.json', 'w'), indent=1, sort_keys=True)
print({k: len(v)//2 for k, v in out.items()})
