#!/usr/bin/env python3
"""Regenerates /verif/MANIFEST.json from the table below (edit here, then run)."""
import json

NOT_BUILT = "check not built yet (work in progress; see DESIGN.md for the plan)"
NA = {
    "C16": "not applicable to solver-based checking here: AES-NI/CLMUL are x86 vector intrinsics (no IR-level semantics in LLSYM and no specification to compare with but another implementation), CLMUL-vs-portable GHASH is a GF(2^128) multiplier equivalence that z3/cvc5 cannot decide even on 6-bit windows (measured), GMP is a binary library behind ctypes and the custom-C back-end is multi-limb Montgomery arithmetic (symbolic x symbolic 64-bit products); differential testing would be a different technique (DESIGN.md s5).  The decidable fragments are decided elsewhere, each against the mathematical definition rather than against another implementation: the pure-Python integer back-end and the glue of the custom-C back-end at reduced width, and the C byte/word conversions and linear kernels (C14, C06); that is far less than this property states, so it is not claimed",
}
CHECKS = {'C01': {'category': 'other',
         'engine': 'PYSYM',
         'note': 'Block cipher, GHASH multiply, ChaCha20 block, Poly1305 are uninterpreted (KAT-tested primitives are assumed); the fresh-keyed '
                 'BLAKE2s tag comparison is assumed injective; native raw modes are contract models (the C is checked separately). Trusted: z3, vlib '
                 'PYSYM, reference models (validated concretely against the real library on every run).',
         'technique': 'bounded symbolic execution of the real Python (PYSYM) + z3 (QF_UFBV), per-shape',
         'text': 'Bounded symbolic execution of the real AEAD mode classes: per shape (key/nonce/mac/AAD/message/tag lengths) every byte is a solver '
                 "variable and z3 decides 'accept <=> tag equals the specification tag' and 'output equals the specification' against reference "
                 'models written from the standards; all counterexamples are replayed on the real library.  Holds for all byte contents within the '
                 'length grids; nothing is claimed outside them.'},
 'C04': {'category': 'other',
         'engine': 'PYSYM',
         'note': 'EC group abstract (verification equation is an uninterpreted verdict), wide modular arithmetic abstracted (MODW/MULW uninterpreted '
                 'with range facts), SHA-512/SHAKE256 uninterpreted.',
         'technique': 'bounded symbolic execution of the real Python (PYSYM) + z3',
         'text': 'Partial: symbolic execution of the real EdDSA verify() with S (all 2^(8n) encodings >= 2^(bits(L)-1)) and the message symbolic, '
                 "for low-order and full-order public keys and R in {identity, full-order point}: z3 decides 'accepted => S < L' and refusal of "
                 'wrong lengths.  DSS/PSS/PKCS#1 v1.5 glue is not yet part of this check.'},
 'C07': {'category': 'other',
         'engine': 'LLSYM+PYSYM',
         'note': 'Bounds: k in 12..40 (v1.5), k in 2hLen+2..2hLen+24 with SHA-1/SHA-256 as uninterpreted hashes (OAEP wrappers), hLen in {1,4,8,20} '
                 'for the C decoder.  The RSA private operation is a stub returning an arbitrary EM (bijection argument); modexp, blinding, the '
                 'range check c<n of RsaKey and encrypt() are outside this check for now.  Trusted: clang front end, vlib LLSYM interpreter '
                 '(validated against the gcc-built C on every run), z3.',
         'technique': 'bounded symbolic execution of the real C from LLVM IR (LLSYM) and of the Python wrappers (PYSYM) + z3',
         'text': "The real C of src/pkcs1_decode.c (pkcs1_decode, oaep_decode and all helpers, from clang's LLVM IR) is executed symbolically with "
                 'the whole encoded message as solver variables; z3 decides, for every EM of each length k, that the result and the output buffer '
                 'equal the RFC 8017 decoding predicate, with every load/store bounds-checked.  The Python wrappers PKCS1_v1_5.decrypt / '
                 'PKCS1_OAEP.decrypt run on top with the C in the loop (sentinel kinds, expected lengths, label, MGF1 over an uninterpreted hash).'},
 'C08': {'category': 'other',
         'engine': 'PYSYM',
         'note': 'Components are arbitrary symbolic integers (8..521 bits), not necessarily valid keys; RSA expected predicate is over (n,e,d); EC '
                 "points over the abstract group; an exception from == counts as 'not equal'.",
         'technique': 'bounded symbolic execution of the real Python (PYSYM) + z3',
         'text': 'Partial: symbolic execution of the real __eq__/__ne__ of RsaKey, DsaKey, ElGamalKey and EccKey on objects built from independent '
                 "symbolic components; z3 decides 'equal <=> same privacy and same components'.  Export/import round trips are not yet part of this "
                 'check.'},
 'C11': {'category': 'model_checking',
         'engine': 'LLSYM',
         'note': 'cipher->encrypt is the uninterpreted E; <= 5 calls of <= 9 blocks+1 per object; mid-life states assume the representation '
                 'invariant (bytes so far <= limit).  Python-level parts of the property (Counter.new/_create_ctr_cipher layout, ChaCha20 '
                 'seek/counter, CCM/GCM length limits) are being added; until then they are outside this check.  HPKE nonce distinctness is decided '
                 'under C15.',
         'technique': 'bounded symbolic execution of the real C from LLVM IR (LLSYM) + z3; inductive step from an arbitrary state',
         'text': 'Bounded model checking of the real C state machine of src/raw_ctr.c from LLVM IR: symbolic key, initial counter block and data; z3 '
                 'decides that every keystream block is E(counter block for its position) for all counter widths 1..16, both endiannesses and '
                 'prefix/suffix layouts, that 1-byte counters run correctly to and across the wrap (full 4096/2048-byte life), and that '
                 'ERR_CTR_REPEATED_KEY_STREAM is returned exactly when the cumulative byte count exceeds block_len*2^(8*counter_len) -- including '
                 'one inductive step from an arbitrary mid-life 128-bit byte count.'},
 'C13': {'category': 'other',
         'engine': 'PYSYM',
         'note': 'Bounds: decoders on all inputs of length <= 5 (quick) / 7 (thorough); windows over structural octets of 11 valid RSA/DSA/PBES '
                 'templates; integers |v| < 2^40.  ECC/EdDSA templates, PEM/OpenSSH text, OID arcs and RFC1751 are outside this check for now.  '
                 'Default RNG is a fixed concrete tape and block-cipher decryption is opaque (zero blocks) in the template harness.',
         'technique': 'bounded symbolic execution of the real Python (PYSYM) + z3, per input length',
         'text': 'Bounded symbolic execution of the real DER/padding/number/PKCS8/import_key code on inputs whose every byte is a solver variable '
                 '(all byte strings of each length up to the bound, and every value of a 1-2 byte window in valid key encodings); z3 decides '
                 'totality (only documented exception types reachable), strictness against an independent strict TLV reader and round trips against '
                 'an independent minimal DER writer.'},
 'C15': {'category': 'model_checking',
         'engine': 'PYSYM',
         'note': 'AEAD primitives uninterpreted as in C01; the KEM / key-schedule trace per suite and mode is not yet part of this check (EC group '
                 'abstract model exists, harness pending); messages <= 40 bytes.',
         'technique': 'inductive-step bounded model checking by symbolic execution of the real Python (PYSYM) + z3',
         'text': 'One inductive step of the real HPKE_Cipher.seal()/unseal() from a context whose sequence number is an arbitrary 96-bit solver '
                 'variable: z3 decides acceptance, output and successor state against RFC 9180 s5.2 for all keys, nonces, AADs and messages of the '
                 'shape grid; by induction on the number of calls this covers every interleaving of genuine, corrupted, replayed and out-of-order '
                 'messages.'}}

CHECKS.update({
 'C03': dict(engine="LLSYM", category="other",
   text="Partial (C buffering/padding/finalisation): the real C of hash_SHA2_template.c (SHA-224/256/384/512, SHA-512/224, SHA-512/256), SHA1.c, MD5.c, RIPEMD160.c and keccak.c is executed symbolically from LLVM IR with the compression function / Keccak-f uninterpreted; z3 decides that the digest / squeezed stream equals the standard's padding (MD strengthening with the bit length, pad10*1 with the domain byte), iteration and output serialisation for EVERY message of each length around all padding boundaries, over every segmentation into update()/absorb()/squeeze() calls of the grid, with copy()/digest()/update-after-digest/reset sequences.",
   note="Compression functions and permutations are uninterpreted (KAT-tested primitives assumed); MD2/MD4 (compression inlined), BLAKE2, Poly1305 and the Python MAC/XOF glue (HMAC, CMAC, KMAC, cSHAKE, TupleHash, K12) are not yet part of this check; messages <= 2 blocks+1.  Replay compares the gcc-built C with hashlib.",
   technique="bounded symbolic execution of the real C from LLVM IR (LLSYM) with uninterpreted compression + z3"),
 'C17': dict(engine="LLSYM", category="other",
   text="Partial (encoded kernels): byte-precise memory model over the real C from LLVM IR; for all byte contents of every shape (lengths 0..2 blocks+1, non-multiples of the block size, in==out, out = in+-1/+-block, odd alignment, create/copy/use/destroy sequences) every load/store/memcpy/memset of raw_ecb/cbc/cfb/ofb/ctr/ocb.c, strxor.c, chacha20.c, pkcs1_decode.c, the SHA-2 template, SHA1.c, MD5.c, RIPEMD160.c and keccak.c stays inside a live object, nothing is freed twice or used after free, and stop/destroy releases every allocation; unsupported lengths come back as error codes.",
   note="About a third of the 42 extension modules; cipher cores (AES/DES/Blowfish/CAST/ARC2/ARC4), GHASH, Poly1305, BLAKE2, Salsa20/scrypt, all EC/bignum code, allocator-failure paths and lengths above the grid are outside.  malloc is assumed to succeed.  Counterexamples are replayed on the gcc-built C with guard bytes, then under AddressSanitizer; a crash of the replay counts as confirmation.",
   technique="bounded symbolic execution of the real C from LLVM IR (LLSYM) under a bounds/liveness-checked memory model + z3"),
 'C19': dict(engine="LLSYM", category="other",
   text="Partial (sequential independence and input immutability at the C level): frame conditions of every encoded entry point -- for all byte contents only the object's own state and the designated outputs are written, never inputs/keys/IVs or module globals (no writable statics) -- and copy-independence of hash/XOF states.  Disjoint write sets by construction give non-interference of distinct objects, also under concurrent use; this is an argument from the frame conditions, not an exploration of thread schedules.",
   note="Thread interleavings (2..16 threads), the curve-registry lock, first-use races, GIL release behaviour and Python-level argument immutability are outside this check; kernels as in C17.",
   technique="frame-condition checking by bounded symbolic execution of the real C from LLVM IR (LLSYM) + z3"),
})

CHECKS.update({
 'C18': dict(engine="PYSYM", category="other",
   text="Symbolic execution of the real samplers (Integer.random / random_range over IntegerNative, StrongRandom.getrandbits/randrange/randint/shuffle, ECC.generate) with the entropy tape as solver variables: on every completed path z3 decides the definition of an unbiased rejection sampler -- candidate = tape & (2^bits-1) (a bijection on the masked tape), the mask covers the whole range, a draw is rejected exactly when the candidate is out of range, result = min + candidate (start + step*candidate) -- which implies in-range, exactly uniform for a uniform tape, and deterministic in the tape; EC private scalars lie in [1, order-1] and EdDSA/X25519 seeds are exactly the tape draw.",
   note="Range sizes of every bit length 1..64 with symbolic bounds (quick: 12 sizes), plus 256 (thorough 255/521) bits; at most 2 rejections per call (longer rejection runs are cut); steps 1 and 3.  RSA/DSA generation, blinding factors, DSS nonces and the OS entropy source are outside; the default RNG is a stub that aborts (or a fixed stream for curve set-up).",
   technique="bounded symbolic execution of the real Python (PYSYM) with a symbolic entropy tape + z3"),
})

CHECKS.update({
 'C10': dict(engine="PYSYM", category="model_checking",
   text="Bounded model checking of call histories: every sequence of method calls up to the depth bound over {update, encrypt, decrypt, digest, verify, encrypt_and_digest, decrypt_and_verify} is executed symbolically on the real GCM, EAX, CCM and ChaCha20-Poly1305 objects (all data bytes solver variables), and every encrypt/decrypt sequence on CBC, CFB, OFB, CTR and ChaCha20 objects.  Oracle: the documented life-cycle automaton -- a forbidden call raises TypeError and the object then behaves as if the call had not been made; every permitted sequence yields the pieces of the one-shot reference ciphertext/plaintext and its tag; digest()/verify() are idempotent and unlock nothing.",
   note="Depth 3 (EAX 2) plus selected depth-4/5 paths in quick; depth 4 (GCM 5) exhaustively in thorough; argument lengths cycle through 1, 16, 17, 0.  SIV, OCB, CCM with declared lengths and hash/XOF/MAC objects are not yet part of this check; deeper histories are outside (no abstraction-soundness argument).  Primitives uninterpreted as in C01.",
   technique="bounded model checking of method-call histories by symbolic execution of the real Python (PYSYM) + z3"),
 'C20': dict(engine="PYSYM", category="other",
   text="Partial: (1) the body of the multiplication loop of _Element.__mul__, extracted from the real function's AST, executed once from an ARBITRARY 128-bit state (z, v, f2): z3 decides it equals the textbook shift-and-add step over GF(2)[x]/(x^128+x^7+x^2+x+1) and preserves the invariant -- an inductive argument covering all 2^384 states; (2) whole __mul__, commutativity, distributivity and inverse on operands with 4 free bits at positions 0/60/124; (3) split(): every coefficient is a distinct 16-byte RNG draw, the constant term is the secret and share i is the Horner evaluation at x=i (+x^k for ssss) with secret and coefficients symbolic at full width; (4) combine(split()) returns the secret for every k-subset in every order and refuses duplicates, on 4-bit-window secrets/coefficients.",
   note="Field laws of __mul__ at full width are NOT claimed: z3/cvc5 cannot decide GF(2^128) multiplier identities (measured: 2x6 symbolic bits already unknown at 150 s), and the bin(bit)*128 mask idiom forks once per symbolic bit, so reconstruction with full-width symbolic operands on both sides is out of reach; split() structure for k <= 3, n <= 4; reconstruction combine(split()) for k = 2 only (k = 3 exceeds the time / memory budgets on every window, measured).",
   technique="inductive step on the loop body extracted from the real AST + bounded symbolic execution (PYSYM) + z3"),
})

CHECKS.update({
 'C02': dict(engine="PYSYM+LLSYM", category="other",
   text="Modes only: the real mode classes (ECB, CBC, CFB with every segment size, OFB, CTR with nonce/int/bytes initial values, OpenPGP; the AEAD senders of C01: GCM, CCM, EAX, SIV, OCB, ChaCha20-Poly1305, KW, KWP) are executed symbolically over an uninterpreted bijective block cipher of block size 8 or 16: z3 decides ciphertext (and tag) == SP 800-38A/B/C/D/F, RFC 4880 s13.9, RFC 5297, RFC 7253, RFC 8439 for all keys/IVs/messages of the length grid, decrypt(encrypt(M)) = M for a peer built only from the exposed iv/nonce (also when the library chose it: the value is exactly the RNG draw), 3DES parity adjustment and degenerate-key refusal, the C kernels raw_ecb/cbc/cfb/ofb/ctr.c against the same equations, and the full quarter-round network of src/chacha20.c term for term against RFC 8439 s2.3.",
   note="The block and stream primitives themselves (AES, DES, 3DES, Blowfish, CAST, RC2, RC4, Salsa20 core) are ASSUMED equal to their standards (KAT-tested; not decidable by this technique without a second implementation); AESNI.c, Salsa20/ARC4 wrappers and messages beyond the grids are outside.",
   technique="bounded symbolic execution of the real Python (PYSYM) and C from LLVM IR (LLSYM) over an uninterpreted bijective block cipher + z3"),
 'C09': dict(engine="PYSYM+LLSYM", category="other",
   text="Symbolic differential between two objects of the same real class: feed(S1);feed(S2) vs feed(S1||S2) for every cut offset of the grid (AEAD associated-data and message streams, classic modes, ChaCha20, CMAC, HMAC, with copy() mid-stream), the same data carried as bytes/bytearray/memoryview/odd-offset memoryview slice, and results returned vs output=bytearray vs output=memoryview vs output = the input buffer (incl. that the AEAD MAC is computed over the ciphertext when it is overwritten in place); plus the C streaming state of raw_cbc/cfb/ofb/ctr.c, the MD hashes, keccak absorb/squeeze and Poly1305 buffering across calls (LLSYM).",
   note="Streams of 33 bytes (CBC 48, HMAC 70) with cuts around the block/cache sizes in quick and at every offset in thorough; k-segmentations follow from 2-segmentations by induction observed through later outputs (state is not compared field by field).  KangarooTwelve chunking, Salsa20, SIV component vectors beyond the C01 grid, longer streams and the real cffi/ctypes pointer conversions are outside.",
   technique="symbolic differential execution of the real Python (PYSYM) and C streaming kernels (LLSYM) + z3"),
})

CHECKS.update({
 'C12': dict(engine="PYSYM+LLSYM", category="other",
   text="Glue: symbolic execution of the real KDF code with passwords, salts, labels and contexts as solver variables and the hash (whole-message), ROMix and EksBlowfish cores uninterpreted: z3 decides PBKDF1 == RFC 8018 s5.1, PBKDF2 (generic-PRF path and HMAC-assist fast path, through the real HMAC.py) == RFC 8018 s5.2, HKDF == RFC 5869 incl. multi-key outputs as consecutive slices and the 255*HashLen limit at its exact boundary, SP 800-108 counter mode input formatting and NUL refusal, the scrypt parameter rules for symbolic N and its PBKDF2-ROMix-PBKDF2 plumbing (RFC 7914), bcrypt control logic (NUL refusal, 72-byte limit, implicit NUL, cost/salt ranges, framing, bcrypt_check accepts the produced hash); and the C inner loop *_pbkdf2_hmac_assist of SHA-1/SHA-256/SHA-512 (LLSYM, compression uninterpreted) == xor of the HMAC chain with inner/outer states untouched.",
   note="dkLen <= 3 PRF blocks+1, count <= 3, N <= 12 bits (rules) / N<=4,r<=2,p<=2 (plumbing); scryptROMix/Salsa20-8 and EksBlowfish values, _bcrypt_encode/_bcrypt_decode on symbolic text, real iteration counts and hash compression functions are outside.",
   technique="bounded symbolic execution of the real Python (PYSYM) and C (LLSYM) over uninterpreted hash/ROMix cores + z3"),
})

CHECKS.update({
 'C06': dict(engine="PYSYM+LLSYM", category="other",
   text="Partial. (PYSYM) the real Crypto.Protocol.DH.key_agreement and EccPoint/EccXPoint operator code run over an abstract commutative group with every private scalar symbolic: z3 decides that in each supported SP 800-56A role combination both parties derive the same Z = Ze || Zs with each part the encoded x-coordinate of d_own * Q_peer, that unsupported combinations / wrong key kinds / neutral results are refused, that the scalar handed to the C code is exactly k for every k of 1..75 bytes, and the copy-vs-in-place, negation, equality and neutral-element conventions.  (LLSYM) the real linear field kernels of mod25519.c (all representation changes, add_25519, sub_25519, add32, both reductions, is_zero, cswap), curve448.c cswap and bignum.c ge/sub/add_mod/sub_mod/mod_select with every limb symbolic against their integer specifications.",
   note="NOT decided: the multiplication-based C kernels (mul_25519, mont_mult_*, projective add/double, scalar multiplication loops, ladders, tables) and therefore agreement of the C scalar multiplication with the group law: wide modular multiplication identities are not SMT-decidable here (measured).  The abstract group assumes: results on the curve and reduced, addition commutes, a(bQ)=b(aQ), exchanges between valid keys are not neutral.",
   technique="bounded symbolic execution of the real Python over an abstract group (PYSYM) and of the real linear C field kernels from LLVM IR (LLSYM) + z3"),
})

CHECKS.update({
 'C05': dict(engine="PYSYM", category="other",
   text="Partial. Symbolic execution of the real constructors with every component a solver variable; z3 decides 'accepted <=> the invariants of the key type hold': ECC private scalars (every integer up to order_bits+8 bits and negatives: accepted iff 1 <= d < order, public point = d*G), public coordinates (P + i*p refused for every public key P of the abstract group, 7 curves), private/public match, RFC 8032 / RFC 7748 clamping of Ed25519/Ed448/Curve25519/Curve448 seeds bit for bit, the Montgomery low-order deny lists for EVERY x of the byte length (incl. non-reduced forms), and RSA.construct (full tuples and public keys (n, e)) / DSA.construct consistency checking on ALL component tuples of reduced width (n=p*q, primes, e*d = 1 mod lcm(p-1,q-1), CRT coefficient, ranges, coprimality; p,q prime, q | p-1, g of order q, y = g^x).",
   note="Reduced width for RSA (p,q < 2^3, thorough 2^4) and DSA (p < 2^5); ElGamal (p < 2^3, thorough only) with the probabilistic primality test replaced by the exact table; EC group abstract with the range/reduction behaviour of each C new_point.  NOT decided: generate() loops and FIPS 186-4 margins, primality tests on real sizes, factor recovery from (n,e,d), the C on-curve computation for all coordinates (run on a list of concrete candidates only), import formats (C13 decides totality of the decoders; components go through the same constructors).",
   technique="bounded symbolic execution of the real Python (PYSYM) over an abstract EC group and reduced-width integers + z3"),
})

CHECKS.update({
 'C14': dict(engine="PYSYM+LLSYM", category="other",
   text="Partial. (PYSYM) the real pure-Python integer layer (IntegerNative / IntegerBase / Util.number / Primality) with reduced-width solver variables against the mathematical definitions: sqrt, perfect squares, gcd, lcm, modular inverse, Jacobi symbol, sizes, byte conversion in both orders and every block size, bit access, shifts, mixed int/Integer and in-place operators, the documented exceptions, modular square roots for small prime moduli; Miller-Rabin never declares a prime below 2^8 composite for ANY random tape, and one round of both implementations (Math.Primality, legacy Util.number) equals the strong-probable-prime predicate for EVERY base of every odd n below 2^8 and of 561, 1105, 1729, 2047; Math/_IntegerCustom.py pow() / _mult_modulo_bytes over the contract of src/modexp.c for operands of different byte lengths.  (LLSYM) the real C byte/word conversions with all bytes symbolic.  The real modexp C (monty_pow / monty_multiply + mont.c) runs on CONCRETE operands of word-boundary lengths under the bounds-checking LLSYM interpreter (memory safety, no leak, frame condition, result == Python pow) -- exactness only for the operands run.",
   note="NOT decided: exactness of the multiplication-based C kernels and of the GMP back-end for all operands (wide symbolic multiplication is not SMT-decidable here, measured; GMP is a binary), composites of cryptographic size being declared composite (probabilistic), GMP glue, Lucas test, prime generation; bignum.c linear kernels are decided under C06.",
   technique="bounded symbolic execution of the real Python at reduced width (PYSYM) and of the real C conversions (LLSYM) + z3; concrete interpretation of the modexp C under the LLSYM memory model"),
})

# ---- as-built refinements of the texts above (kept here so that the table stays the single source)
def _upd(pid, text_add=None, note=None, text=None):
    c = CHECKS[pid]
    if text is not None:
        c['text'] = text
    if text_add:
        c['text'] = c['text'] + "  " + text_add
    if note is not None:
        c['note'] = note


_upd('C02', text_add="Multi-block ChaCha20 streams and the 64-bit counter carry are decided through the C11 chacha_seq grid (sequence vs direct seek on the real C).")
_upd('C03', text_add="Also: Poly1305 limb arithmetic except the 130x128-bit product (LLSYM), and the SP 800-185 layer in Python -- cSHAKE128/256, KMAC128/256, TupleHash128/256 incl. left_encode/right_encode for every value of 1..3 (5) bytes, bytepad at the rate boundary, every mac/digest length around 128/256 bits -- against the standard over the uninterpreted sponge; verify() accepts the standard tag.",
     note="Compression functions and permutations are uninterpreted (KAT-tested primitives assumed); MD2/MD4 functional behaviour (compression inlined; their frame condition is under C19), BLAKE2, HMAC/CMAC glue (exercised under C09/C12/C19, not against a reference here), KangarooTwelve are not part of this check; messages <= 2 blocks+1.  Replay compares the gcc-built C with a pure-Python Keccak-p / hashlib.")
_upd('C08', text="Partial: (1) symbolic execution of the real __eq__/__ne__ of RsaKey, DsaKey, ElGamalKey and EccKey on objects built from independent symbolic components, incl. ECC keys on different curves with equal scalars: z3 decides 'equal <=> same type, same privacy and same components'.  (2) export -> import round trips in the binary formats: ECC DER (SPKI, RFC 5915, PKCS#8 in clear) and SEC1 uncompressed for every private scalar with 0..1 (2) leading zero bytes and every seed, X25519/X448 SPKI; import(export(k)) == k with privacy, curve, scalar/seed preserved.  (3) PBES2: decrypt(encrypt(data)) == data for every PBKDF2-PRF x cipher combination and every scrypt scheme with data, passphrase, salt and IV symbolic (PRF OID table, AEAD tag placement, padding travel through the DER AlgorithmIdentifier).",
     note="RSA / DSA export-import (their importers run the full consistency checks: symbolic only at toy width, see C05), the PEM / OpenSSH text layer (base64 of symbolic bytes is not modelled), SEC1 compressed and EdDSA public keys (decompression needs a modular square root), PBES1, wrong-passphrase refusal (not derivable over uninterpreted ciphers) and an external parser as oracle are outside.  EC points over the abstract group; an exception from == counts as 'not equal'.")
_upd('C09', text_add="Segmentations with an EMPTY middle piece while a partial block is cached are included for every AEAD stream.")
_upd('C10', text_add="Also: after a WRONG tag (verify / decrypt_and_verify raise ValueError) only verify() remains possible -- every follow-up call; OCB with its explicit final no-argument encrypt()/decrypt() (9 methods); CCM with assoc_len/msg_len declared, pieces counted against the declaration (too much / too little data -> ValueError).  An exception of any other type (e.g. an escaping AssertionError) is a violation.  Hash / XOF / MAC objects (17 classes: SHAKE, cSHAKE, TurboSHAKE, SHA-3, keccak, BLAKE2, KMAC, TupleHash, CMAC, Poly1305, HMAC, SHA-1/2, MD5): every update / output sequence up to depth 4 (5) -- update after the first output raises TypeError where documented and leaves no trace, reads continue the one-shot stream, digests are idempotent.",
     note="Depth 3 (EAX 2) plus selected depth-4/5 paths in quick; depth 4 (GCM 5) exhaustively in thorough; argument lengths cycle through 1, 16, 17, 0.  SIV, KangarooTwelve and copy() inside the sequences (C19) are not part of this check; deeper histories are outside (no abstraction-soundness argument); behaviour after a ValueError for too much / too little declared CCM data is not followed.  Primitives uninterpreted as in C01.")
_upd('C11', text_add="ChaCha20: sequences of seek()/encrypt() on the real C of src/chacha20.c -- every call returns the key stream for its position (reference: the real code's own output after a direct seek on a fresh object; that single block == RFC 8439 is decided in C02) or fails; it must fail beyond the counter range and, once failed, keep failing until a successful seek (no silent restart from block 0); ChaCha20.seek() in Python for every position up to 136 bits incl. negative ones; CCM: every declared msg_len, with and without assoc_len, against the q = 15 - len(nonce) limit; GCM: one encrypt() step from an arbitrary mid-life byte count against 2^36 - 32 bytes.",
     note="cipher->encrypt is the uninterpreted E; <= 5 calls of <= 9 blocks+1 per object; mid-life states assume the representation invariant.  ChaCha20 block indexes: fully symbolic below a carry of the low counter word, solver-enumerated in windows of 4 next to the carry and the end of the counter range; the last block index is refused by the implementation (conservative, allowed by the oracle).  Python-level ChaCha20/CCM/GCM checks run over the C contract models (ctypes c_ulong truncation modelled).  GCM decrypt() has no limit of its own (observed; not anchored).  HPKE nonce distinctness is decided under C15.")
_upd('C13', text_add="Grammar-based ECC key files (SPKI, RFC 5915, PKCS#8, EdDSA/XDH SPKI and PKCS#8): well-formed DER whose EC point / private scalar / raw key has every length around the expected one and symbolic content: a key or ValueError, never another exception.",
     note="Bounds: decoders on all inputs of length <= 5 (quick) / 7 (thorough); windows over structural octets of 11 valid RSA/DSA/PBES templates; integers |v| < 2^40; ECC files for P-256/P-521 (thorough P-384) and the four Edwards/Montgomery curves.  PEM/OpenSSH text, compressed-point and EdDSA point decompression (modular square root of a symbolic value), OID arcs and RFC1751 are outside.  Default RNG is a fixed concrete tape and block-cipher decryption is opaque (zero blocks) in the template harness.")
_upd('C17', text_add="Python wrappers (strxor, strxor_c, ECB/CBC/CFB/OFB/CTR/ChaCha20 encrypt/decrypt with output=): every (input, second input, output) length combination -- a mismatch is refused with ValueError/TypeError before the native call, and the native contract model reports any length that would overrun a passed buffer.  ec_ws.c + mont.c + generator tables: new_context / new_point / scalar (generator fast path and generic path) / get_xy / free on CONCRETE operands with scalars of 0..80 bytes under the same memory model.",
     note="About a third of the 42 extension modules; cipher cores (AES/DES/Blowfish/CAST/ARC2/ARC4), GHASH, BLAKE2 (frame condition only, C19), Salsa20/scrypt, Ed25519/Ed448/X25519/X448 and modexp (C14: concrete operands), allocator-failure paths and lengths above the grid are outside.  EC runs use concrete operands (wide symbolic products are out of reach).  malloc is assumed to succeed.  Counterexamples are replayed on the gcc-built C with guard bytes and an allocation tracker, then under AddressSanitizer; a crash of the replay counts as confirmation.")
_upd('C19', text="Partial (sequential independence, copy, shared-state freedom): (1) Python copy() of CMAC (AES, 3DES), HMAC, SHA-1/256/512, MD5, SHA3-256, RIPEMD-160: update / copy / update of both objects in either order, second-generation copies, digests in between, lengths around the block size, all bytes symbolic: each object's digest is the digest of its own message only.  (2) frame conditions of every encoded C entry point -- for all byte contents only the object's own state and the designated outputs are written, never inputs/keys/IVs or module globals (no writable static: also MD2, MD4, BLAKE2b/s with two live objects, copy, destroy) -- and for the EC point operations (add, double, neg, cmp, get_xy, scalar) that the shared EcContext and the second operand are never written and everything allocated is released.  Disjoint write sets give non-interference of distinct objects, also under concurrent use; this is an argument from the frame conditions, not an exploration of thread schedules.",
     note="Thread interleavings (2..16 threads), the curve-registry lock and first-use races, GIL release behaviour are outside: no engine here explores schedules (a seeded lock-refactor race is NOT caught, see DESIGN.md s9.6).  EC frame checks use concrete coordinates (data-independent control flow), MD2 concrete message bytes.  Writable statics are confirmed in replay on the compiled IR; heap writes through a link-time allocation tracker.")

ENGINES = [
    dict(name="PYSYM", path="vlib/pysym", kind_free_text="bounded symbolic execution of the real Python source (AST-rewritten import, symbolic bytes/int proxies, fork by re-execution under a decision prefix) decided by z3"),
    dict(name="LLSYM", path="vlib/llsym", kind_free_text="symbolic interpreter of clang-14 LLVM IR (-O0 + mem2reg) of /repo/src/*.c into z3 terms, bounds-checked memory model, local path exploration with ite-merge at function returns; replay on the gcc-built C through ctypes"),
]


def main():
    props = [json.loads(l) for l in open('/verif/properties.jsonl')]
    man = dict(version=1, setup_cmd="true",
               hooks=dict(guard="PYCRYPTODOME_VERIF",
                          enable="no source hooks: the native boundary is replaced at import time by vlib/pysym/natives.py; C is compiled from /repo/src by clang (LLSYM) and gcc (replay) on every run",
                          baseline_off_cmd="cd /repo && /venv/bin/python -m pytest -ra -q -p no:cacheprovider --timeout=900 --continue-on-collection-errors",
                          source_commits=[], add_only=True),
               engines=[], checks=[], notes="see DESIGN.md; genuine defects repaired by fix: commits are listed in known_findings.json", not_applicable=[])
    for p in props:
        pid = p['id']
        c = CHECKS.get(pid)
        if c is None:
            man['not_applicable'].append(dict(property_id=pid, reason=NA.get(pid, NOT_BUILT)))
            continue
        man['checks'].append(dict(
            property_id=pid, quick_cmd="VERIF_TIER=quick ./check %s" % pid, thorough_cmd="VERIF_TIER=thorough ./check %s" % pid,
            evidence_file="evidence/%s.json" % pid, replay_cmd_template="./check %s --replay {path}" % pid, engine=c['engine'],
            level_claimed=dict(category=c['category'], text=c['text'], design_ref="DESIGN.md s4/%s" % pid),
            level_note=c['note'], technique=c['technique']))
    for e in ENGINES:
        e = dict(e)
        e['serves_properties'] = [pid for pid, c in CHECKS.items() if e['name'] in c['engine']]
        man['engines'].append(e)
    json.dump(man, open('/verif/MANIFEST.json', 'w'), indent=1)


if __name__ == "__main__":
    main()
