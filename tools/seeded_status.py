#!/usr/bin/env python3
"""Run every seeded mutant against the check(s) of the property it breaks (and optional extra checks listed
in meta.json 'also_try'); record which check detects it.  usage: seeded_status.py [tier] [only-id-prefix]"""
import json, os, subprocess, sys, glob
tier = sys.argv[1] if len(sys.argv) > 1 else 'quick'
only = sys.argv[2] if len(sys.argv) > 2 else ''
man = json.load(open('/verif/MANIFEST.json'))
claimed = {c['property_id'] for c in man['checks']}
for mf in sorted(glob.glob('/verif/seeded/*/meta.json')):
    meta = json.load(open(mf))
    if only and not meta['id'].startswith(only):
        continue
    d = os.path.dirname(mf)
    props = [meta['breaks_property']] + meta.get('also_try', [])
    det = []
    for p in props:
        if p not in claimed:
            continue
        r = subprocess.run(['/verif/tools/try_mutant_wt.sh', d + '/patch.diff', p, tier], capture_output=True, text=True)
        line = [l for l in r.stdout.splitlines() if l.startswith('exit=')]
        rc = int(line[0].split('=')[1]) if line else -1
        det.append(dict(check=p, tier=tier, exit=rc, detected=(rc == 1)))
        print(meta['id'], p, tier, 'exit', rc, flush=True)
    meta['detected_by'] = [x for x in meta.get('detected_by', []) if x.get('tier') != tier] + det
    meta['status'] = 'detected' if any(x['detected'] for x in meta['detected_by']) else 'missed'
    json.dump(meta, open(mf, 'w'), indent=1)
