#!/bin/bash
# usage: try_mutant_wt.sh <patch.diff> <PROP> [tier]
# Applies the patch in a scratch worktree of /repo (so that /repo itself stays untouched and other checks can
# run meanwhile), runs the check against that worktree with outputs under a scratch directory, removes it again.
PATCH=$1; PROP=$2; TIER=${3:-quick}
WT=$(mktemp -d /tmp/wtseed_XXXXXX); OUT=$(mktemp -d /tmp/outseed_XXXXXX)
rmdir $WT
git -C /repo worktree add -q --detach $WT HEAD || exit 9
( cd /repo && find lib -name "*.so" | while read f; do cp "$f" "$WT/$f"; done )
( cd $WT && git apply "$PATCH" ) || { echo "apply failed"; git -C /repo worktree remove --force $WT; rm -rf $OUT; exit 9; }
cd /verif
env VERIF_REPO=$WT VERIF_REPO_LIB=$WT/lib VERIF_OUT=$OUT VERIF_TIER=$TIER PYTHONPATH=/verif:$WT/lib PYTHONHASHSEED=0 python3-vt -m vlib.run $PROP > $OUT/log.txt 2>&1
rc=$?
echo "exit=$rc"; grep "VIOLATION\|^\[$PROP\]\|INCONCLUSIVE\|HARNESS-ERROR" $OUT/log.txt | cut -c1-260 | head -6
git -C /repo worktree remove --force $WT; rm -rf $OUT
exit $rc
