#!/usr/bin/env python3
"""print python sources without docstrings/comments (reading aid)"""
import ast,sys
def strip(path):
    src=open(path).read()
    tree=ast.parse(src)
    for node in ast.walk(tree):
        if isinstance(node,(ast.FunctionDef,ast.ClassDef,ast.Module)):
            b=node.body
            if b and isinstance(b[0],ast.Expr) and isinstance(getattr(b[0],'value',None),ast.Constant) and isinstance(b[0].value.value,str):
                if len(b)>1: node.body=b[1:]
                else: b[0].value.value='doc'
    print(ast.unparse(tree))
for f in sys.argv[1:]:
    print('#####',f); strip(f)
